"""Engine T (`tv`): per-output translation validation of the documentation printers (C17 code, C18 LaTeX).

    postcondition of code_str / latex_str :   read(result) == expr   for all values of the symbols

`read` is an executable reference reader written from the property text (NOT SymPy's parsers): `read_code` for the
plain-text rendering, `read_tex` for LaTeX.  The readers are seeded with the *display names* of the atoms of the
expression that was printed (names may contain blanks, digits, primes, brackets ...) and build a SymPy expression over
the ORIGINAL atom objects.  The equivalence is then discharged deductively (`equiv`): polynomial normal form over opaque
atoms first (`nf`), z3 over the reals through `sym2smt.Tr` second, with the domain assumption that all denominators
are non-zero.  Numeric evaluation is used only to concretise an already refuted obligation for the replay.

Reader outcomes
  value                      the string parsed; the equivalence obligation decides
  Malformed / UnknownName    the string is not a well-formed rendering under the stated grammar, or shows an
                             identifier that is not a display name of an atom      -> the obligation is refuted
  Uncovered / Ambiguous      construct outside the reader, or two different atoms share a display name
                                                                                   -> out_of_reach for that output

Reading conventions (DESIGN.md C17/C18) are documented next to the grammar rules below.
"""
from __future__ import annotations

import ast
import decimal
import os
import random
import re
import time
from dataclasses import dataclass, field
from fractions import Fraction
from pathlib import Path
from typing import Any, Callable, Optional

import sympy as sp
from sympy.core.function import AppliedUndef, UndefinedFunction
from sympy.core.relational import Relational
from sympy.physics.units import Quantity as SymQuantity

from . import sym2smt
from .core import Ob, PROVED, REFUTED, UNKNOWN, FAULT, PKG, REPO, die_with_parent
from .smt import prove

SMT_TIMEOUT_S = float(os.environ.get("VERIF_TV_SMT_TIMEOUT", "8"))


# ======================================================================================= reader outcomes
class ReadError(Exception):
    pass


class Malformed(ReadError):
    """Not a well-formed rendering under the grammar of the property: a failure of the obligation."""


class UnknownName(Malformed):
    """An identifier that is not a display name of one of the expression's atoms / a known function."""


class Uncovered(ReadError):
    """A construct the reference reader does not cover: out_of_reach for this output."""


class Ambiguous(ReadError):
    """Two different atoms of the expression share the display name that was read: out_of_reach."""


# ======================================================================================= opaque heads
# Wrapper nodes of the repository (Average, FiniteDifference, ...; IndexedSum/Product) and SymPy's Order are value-opaque:
# both the reader and `canon` map them to applications of these undefined functions, keyed by canonical argument.
F_AVG = sp.Function("TV_Average")
F_DELTA = sp.Function("TV_FiniteDifference")
F_D = sp.Function("TV_ExactDifferential")
F_INEXACT = sp.Function("TV_InexactDifferential")
F_ORDER = sp.Function("TV_Order")
F_ISUM = sp.Function("TV_IndexedSum")
F_IPROD = sp.Function("TV_IndexedProduct")
F_POW = sp.Function("TV_Pow")  # powers with unwieldy rational exponents (x^0.0387) stay opaque for the back ends
SYMBOLIC_HEADS = {"Average": F_AVG, "FiniteDifference": F_DELTA, "ExactDifferential": F_D,
                  "InexactDifferential": F_INEXACT}
S_INF = sp.Symbol("TV_oo", positive=True)
S_ZOO = sp.Symbol("TV_zoo")
S_I = sp.Symbol("TV_I")

_repo_cache: dict = {}


def R():
    """Classes of the real package (imported lazily: VERIF_REPO decides which tree)."""
    if not _repo_cache:
        from symplyphysics.core.symbols.symbols import DimensionSymbol, Function as RFunction, IndexedSymbol, Symbol as RSymbol
        from symplyphysics.core.operations.symbolic import Symbolic
        from symplyphysics.core.operations.sum_indexed import IndexedSum
        from symplyphysics.core.operations.product_indexed import IndexedProduct
        _repo_cache.update(DimensionSymbol=DimensionSymbol, RFunction=RFunction, IndexedSymbol=IndexedSymbol,
                           RSymbol=RSymbol, Symbolic=Symbolic, IndexedSum=IndexedSum, IndexedProduct=IndexedProduct)
    return _repo_cache


def printers():
    from symplyphysics.docs.printer_code import code_str
    from symplyphysics.docs.printer_latex import latex_str
    return code_str, latex_str


# ======================================================================================= display names of the atoms
_TEX_SPACING = {r"\,", r"\:", r"\;", r"\!", r"\ ", r"\quad", r"\qquad", "~"}
_TEX_TOKEN = re.compile(r"\\[A-Za-z]+|\\.|\d+(?:\.\d+)?|\s+|.", re.S)


def tex_tokens(s: str) -> list[str]:
    return [t for t in _TEX_TOKEN.findall(s) if not t.isspace()]


def tex_key(s: str) -> tuple:
    """A LaTeX name modulo grouping braces and spacing (SymPy re-braces sub/superscripts: E_\\text{e2} -> E_{\\text{e2}})."""
    return tuple(t for t in tex_tokens(s) if t not in ("{", "}") and t not in _TEX_SPACING)


class Names:
    """name -> atoms table of ONE expression (the lexer seed)."""

    def __init__(self, mode: str):
        self.mode = mode  # "code" | "latex"
        self.symbols: dict = {}
        self.functions: dict = {}
        self.heads: set = set()  # class names of the composite nodes of the expression (to tell 'uncovered' from 'unknown')

    def _add(self, table, key, atom):
        if not key:
            return
        lst = table.setdefault(key, [])
        if not any(a is atom or a == atom for a in lst):
            lst.append(atom)

    def add_symbol(self, name: str, atom):
        if self.mode == "code":
            self._add(self.symbols, name, atom)
        else:
            for k in _tex_name_variants(name):
                self._add(self.symbols, k, atom)

    def add_function(self, name: str, f):
        if self.mode == "code":
            self._add(self.functions, name, f)
        else:
            for k in _tex_name_variants(name):
                self._add(self.functions, k, f)

    def lookup(self, table, key):
        lst = table[key]
        if len(lst) > 1:
            shown = key if isinstance(key, str) else " ".join(key)
            raise Ambiguous(f"{len(lst)} different atoms are displayed as '{shown}'")
        return lst[0]


_plain_latex = None


def _tex_name_variants(name: str) -> list[tuple]:
    """Keys under which a LaTeX display name may appear: as given, and as normalised by SymPy's name convention
    (x1 -> x_{1}, alpha -> \\alpha, x_a^b -> x^{b}_{a}); SymPy's convention is trusted base, not code under test."""
    global _plain_latex
    out = [tex_key(name)]
    try:
        if _plain_latex is None:
            from sympy.printing.latex import LatexPrinter
            _plain_latex = LatexPrinter()
        k = tex_key(_plain_latex._deal_with_super_sub(name))
        if k not in out:
            out.append(k)
    except Exception:
        pass
    return out


def display_name(atom, mode: str) -> str:
    r = R()
    if isinstance(atom, r["DimensionSymbol"]):
        return atom.display_name if mode == "code" else atom.display_latex
    if isinstance(atom, sp.Idx):
        return str(atom.label.name) if hasattr(atom.label, "name") else str(atom.label)
    return str(getattr(atom, "name", atom))


def collect_names(expr, mode: str) -> Names:
    r = R()
    names = Names(mode)
    seen: set = set()

    def walk(e):
        if isinstance(e, (list, tuple, sp.Tuple)):
            for a in e:
                walk(a)
            return
        if not isinstance(e, sp.Basic):
            return
        try:
            if e in seen:
                return
            seen.add(e)
        except TypeError:
            pass
        if isinstance(e, r["Symbolic"]):
            walk(e.factor)
            return
        if isinstance(e, sp.Indexed):
            base, idx = e.base, e.indices
            for ix in idx:
                walk(ix)
            bn = display_name(base, mode)
            ins = [display_name(ix, mode) if isinstance(ix, (sp.Idx, sp.Symbol)) else None for ix in idx]
            if None in ins:
                return  # computed index: reader will not find a name (Uncovered at read time)
            if mode == "code":
                names.add_symbol(f"{bn}[{', '.join(ins)}]", e)
            else:
                names.add_symbol(bn + "_" + ",".join(ins), e)
            return
        if isinstance(e, sp.Idx):
            names.add_symbol(display_name(e, mode), e)
            return
        if isinstance(e, (sp.Symbol, SymQuantity)):
            if isinstance(e, SymQuantity) and isinstance(e, r["DimensionSymbol"]) and "QTY" in e.display_name:
                raise Uncovered("the expression contains an unnamed Quantity (rendered as SI value * unit, not under a "
                                "display name)")
            names.add_symbol(display_name(e, mode), e)
            return
        if isinstance(e, sp.MatrixBase):
            for a in e:
                walk(a)
            return
        if isinstance(e, AppliedUndef):
            f = e.func
            fname = (f.display_name if mode == "code" else f.display_latex) if isinstance(f, r["DimensionSymbol"]) \
                else f.__name__
            names.add_function(fname, f)
        if e is sp.pi:
            names.add_symbol("pi" if mode == "code" else r"\pi", e)
        elif e is sp.E:
            names.add_symbol("E" if mode == "code" else "e", e)
        elif e is sp.I:
            names.add_symbol("I" if mode == "code" else "i", e)
        elif e is sp.oo:
            names.add_symbol("oo" if mode == "code" else r"\infty", e)
        elif e.is_Atom and not e.is_Number and not isinstance(e, (sp.logic.boolalg.BooleanAtom,)) and e is not sp.zoo:
            # any other atom (e.g. a sympy.vector BaseScalar) is displayed by SymPy's own printer of that atom
            try:
                names.add_symbol(sp.sstr(e) if mode == "code" else sp.latex(e), e)
            except Exception:
                pass
        if e.args and not isinstance(e, AppliedUndef):
            names.heads.add(type(e).__name__)
        for a in e.args:
            walk(a)

    walk(expr)
    return names


# ======================================================================================= canonical form of the original
def float_to_rational(f: sp.Float) -> sp.Rational:
    """A Float leaf denotes its decimal at the precision it carries (15 significant digits for a double): the value both
    printers show.  Computed from the exact binary value with `decimal`, independently of the printers."""
    sign, man, exp, _bc = f._mpf_
    if man == 0:
        return sp.Integer(0)
    exact = Fraction(int(man)) * (Fraction(2) ** int(exp))
    dps = max(1, sp.core.numbers.prec_to_dps(f._prec))
    with decimal.localcontext() as ctx:
        ctx.prec = dps + 60
        d = decimal.Decimal(exact.numerator) / decimal.Decimal(exact.denominator)
        ctx.prec = dps
        d = +d
    fr = Fraction(d)
    if sign:
        fr = -fr
    return sp.Rational(fr.numerator, fr.denominator)


def canon(e):
    """Rebuild `e` bottom-up with SymPy's evaluating constructors (value preserving: trusted base), Floats as their
    printed decimals, wrapper nodes as opaque applications.  Applied to the original AND produced by the readers, so
    that structurally different spellings of one value meet in one normal form where SymPy has one."""
    r = R()
    with sp.evaluate(True):
        return _canon(e, r)


def _canon(e, r):
    if isinstance(e, (list, tuple)):
        return [_canon(a, r) for a in e]
    if isinstance(e, sp.MatrixBase):
        return sp.ImmutableMatrix(e.rows, e.cols, [_canon(a, r) for a in e])
    if isinstance(e, (sp.MatMul, sp.MatAdd)):
        args = [_canon(a, r) for a in e.args]
        acc = args[0]
        for a in args[1:]:
            acc = acc * a if isinstance(e, sp.MatMul) else acc + a
        return acc
    if not isinstance(e, sp.Basic):
        return sp.sympify(e)
    if isinstance(e, Relational):
        return e.func(_canon(e.lhs, r), _canon(e.rhs, r), evaluate=False)
    if isinstance(e, r["Symbolic"]):
        return SYMBOLIC_HEADS.get(type(e).__name__, sp.Function("TV_" + type(e).__name__))(_canon(e.factor, r))
    if e.is_Float:
        return float_to_rational(e)
    if isinstance(e, SymQuantity) or e.is_Atom or isinstance(e, sp.Indexed):
        return e
    if isinstance(e, sp.Order):
        return F_ORDER(_canon(e.expr, r))
    if isinstance(e, r["IndexedSum"]):
        return F_ISUM(_canon(e.args[0], r), *e.args[1:])
    if isinstance(e, r["IndexedProduct"]):
        return F_IPROD(_canon(e.args[0], r), *e.args[1:])
    if isinstance(e, sp.Derivative):
        d = sp.Derivative(_canon(e.expr, r), *[(_canon(v, r), n) for v, n in e.variable_count])
        if isinstance(d, sp.Derivative) and (d.expr.is_Mul or d.expr.is_Add or d.expr.is_Pow):
            # constants move out, products/sums expand: SymPy's diff (trusted base); applications f(x) stay opaque
            try:
                d2 = d.doit(deep=False)
                if not d2.has(sp.Subs):
                    return d2
            except Exception:
                pass
        return d
    if isinstance(e, sp.Integral):
        lims = [tuple(_canon(x, r) if i else x for i, x in enumerate(lim)) for lim in e.limits]
        return sp.Integral(_canon(e.function, r), *lims)
    if isinstance(e, sp.Piecewise):
        return sp.Piecewise(*[(_canon(v, r), _canon(c, r) if isinstance(c, Relational) else c) for v, c in e.args])
    args = [_canon(a, r) for a in e.args]
    if e.is_Add:
        return sp.Add(*args)
    if e.is_Mul:
        return sp.Mul(*args)
    if e.is_Pow:
        return sp.Pow(*args)
    try:
        return e.func(*args)
    except Exception:
        return e


# ======================================================================================= equivalence (deductive)
@dataclass
class Outcome:
    verdict: str  # proved | refuted | undecided
    backend: str
    detail: str = ""
    ms: float = 0.0
    pair: Optional[tuple] = None  # the (read, original) scalar pair that failed / was undecided
    trivial: bool = False  # identical normal forms


def _prep(e):
    """Value-opaque replacements shared by both sides before a back end sees the difference."""
    rep = {}
    for p in e.atoms(sp.Pow):
        x = p.exp
        if x.is_Rational and not x.is_Integer and (x.q > 8 or abs(x.p) > 24):
            rep[p] = F_POW(p.base, x)
        elif x.is_Integer and abs(int(x)) > 64:
            rep[p] = F_POW(p.base, x)
        elif (not x.is_Number) and p.base.is_Rational and p.base.is_positive and not p.base.is_Integer:
            # (p/q)^x = p^x q^(-x) for positive p, q: one spelling for (1/2)^x and 2^(-x)
            rep[p] = sp.Pow(sp.Integer(p.base.p), x) * sp.Pow(sp.Integer(p.base.q), -x)
    if rep:
        e = e.xreplace(rep)
    if e.has(sp.oo) or e.has(sp.zoo):
        e = e.xreplace({sp.oo: S_INF, -sp.oo: -S_INF, sp.zoo: S_ZOO})
    return e


_GENERIC = (sp.Derivative, sp.Subs, AppliedUndef, sp.Integral, sp.Indexed, sp.Idx, SymQuantity)


def nf_zero(expr) -> Optional[bool]:
    """`sym2smt.nf_is_zero` extended to the imaginary unit (an indeterminate with i^2 = -1) and to the atoms this engine
    declares opaque-and-independent (quantities, indexed symbols, integrals, applications of undefined functions).
    True: identically zero (sound).  False: a non-zero polynomial in independent atoms (complete there).  None: undecided."""
    has_i = expr.has(sp.I)
    if has_i:
        expr = expr.xreplace({sp.I: S_I})
    p, rels, mapping = sym2smt._opaque_map(expr)
    num, _den = sp.fraction(sp.together(p))
    num = sp.expand(num)
    if num == 0:
        return True
    generic = all(isinstance(k, _GENERIC) or k is sp.pi for k in mapping)
    if has_i:
        num = sp.expand(sp.rem(num, S_I ** 2 + 1, S_I)) if num.has(S_I) else num
        if num == 0:
            return True
    if not rels:
        return False if generic else None
    gens = sorted(set().union(num.free_symbols, *[x.free_symbols for x in rels]), key=str)
    try:
        G = sp.groebner(rels, *gens, order="grevlex")
        _, rem = G.reduce(num)
    except Exception:
        return None
    return True if rem == 0 else None


def congruent(a, b):
    """Congruence closure over value-opaque applications: arguments of opaque heads (functions, powers with symbolic
    exponent, derivatives, integrals ...) that are provably equal by `nf_zero` are replaced by one representative, so that
    exp(-(a - b)) and exp(b - a) become the same opaque atom.  Deductive (uses only nf identities); returns (a', b')."""
    reps: list = []

    def rep(x):
        if not isinstance(x, sp.Expr) or x.is_Atom:
            return x
        for r_ in reps:
            if r_ == x:
                return r_
        fs = x.free_symbols
        for r_ in reps:
            if r_.free_symbols == fs:
                try:
                    if nf_zero(_prep(r_) - _prep(x)) is True:
                        return r_
                except Exception:
                    pass
        reps.append(x)
        return x

    def norm(e):
        if not isinstance(e, sp.Basic) or e.is_Atom or not e.args:
            return e
        args = [norm(x) for x in e.args]
        if e.is_Add or e.is_Mul:
            return e.func(*args)
        if e.is_Pow and args[1].is_Rational:
            return sp.Pow(rep(args[0]) if not args[1].is_Integer else args[0], args[1])
        try:
            return e.func(*[rep(x) for x in args])
        except Exception:
            return e

    with sp.evaluate(True):
        return norm(a), norm(b)


class TvTr(sym2smt.Tr):
    """`sym2smt.Tr` with applications of elementary / undefined functions and symbolic powers translated as z3
    uninterpreted functions of their translated arguments (congruence is then the solver's), instead of atoms keyed by
    syntax.  Strictly more is provable; soundness as for Tr (no property of the functions is assumed)."""

    def __init__(self):
        super().__init__()
        self._ufs: dict = {}

    def _uf(self, key, arity):
        k = (key, arity)
        if k not in self._ufs:
            import z3
            self._ufs[k] = z3.Function(f"uf{len(self._ufs)}_{arity}", *([z3.RealSort()] * (arity + 1)))
        return self._ufs[k]

    def _tr(self, e):
        if e.is_Pow and not e.exp.is_Rational:
            return self._uf("Pow", 2)(self.tr(e.base), self.tr(e.exp))
        if isinstance(e, (sp.exp, sp.log, sp.sinh, sp.cosh, sp.tanh, sp.coth, sp.asin, sp.acos, sp.atan, sp.asinh, sp.acosh,
                          sp.atanh, sp.factorial, AppliedUndef)) and all(isinstance(x, sp.Expr) for x in e.args):
            try:
                return self._uf(e.func, len(e.args))(*[self.tr(x) for x in e.args])
            except sym2smt.Unsupported:
                return self.atom(e)
        return super()._tr(e)


def equiv_scalar(a, b, name: str = "") -> Outcome:
    """a == b for all real values of the atoms where both are defined (denominators non-zero)."""
    t0 = time.time()
    ms = lambda: (time.time() - t0) * 1000
    if a == b:
        return Outcome("proved", "nf", "identical normal forms", ms(), trivial=True)
    try:
        pa, pb = _prep(a), _prep(b)
        d = pa - pb
        if d == 0:
            return Outcome("proved", "nf", "", ms())
        if d.has(sp.nan):
            return Outcome("undecided", "nf", "difference is nan", ms(), (a, b))
        v = nf_zero(d)
    except sym2smt.Unsupported as u:
        return Outcome("undecided", "nf", f"unsupported: {u}", ms(), (a, b))
    except Exception as ex:  # sympy.polys failure is "undecided", never a verdict
        v = None
    if v is True:
        return Outcome("proved", "nf", "", ms())
    if v is not True:
        # second attempt after congruence closure of the opaque applications
        try:
            ca, cb = congruent(a, b)
            if ca == cb:
                return Outcome("proved", "nf", "", ms())
            pa, pb = _prep(ca), _prep(cb)
            d = pa - pb
            v = True if d == 0 else nf_zero(d)
        except Exception:
            pass
    if v is True:
        return Outcome("proved", "nf", "", ms())
    if v is False:
        return Outcome("refuted", "nf", "difference has a non-zero polynomial numerator over independent atoms", ms(), (a, b))
    if d.has(sp.I):
        return Outcome("undecided", "nf", "imaginary unit: outside the real-valued SMT translation, nf undecided", ms(), (a, b))
    try:
        tr = TvTr()
        za, zb = tr.tr(pa), tr.tr(pb)
    except sym2smt.Unsupported as u:
        return Outcome("undecided", "nf", f"unsupported by sym2smt: {u}", ms(), (a, b))
    ob, _m = prove(name, tr.facts(), za == zb, timeout_s=SMT_TIMEOUT_S, cover=True)
    if ob.verdict == PROVED:
        return Outcome("proved", ob.backend, "", ms())
    if ob.verdict == REFUTED:
        return Outcome("refuted", ob.backend, ob.detail, ms(), (a, b))
    return Outcome("undecided", ob.backend, ob.detail, ms(), (a, b))


def _rel_kind(e):
    return type(e).__name__ if isinstance(e, Relational) else None


def equiv(read, orig, name: str = "") -> Outcome:
    """`read` (reader output) against `orig` (the printed object); both are canonised here."""
    t0 = time.time()
    a, b = canon(read), canon(orig)
    out = _equiv(a, b, name)
    out.ms = (time.time() - t0) * 1000
    return out


def _equiv(a, b, name) -> Outcome:
    if isinstance(b, Relational) or isinstance(a, Relational):
        if _rel_kind(a) != _rel_kind(b):
            return Outcome("refuted", "nf", f"relation kind differs: read {_rel_kind(a)}, original {_rel_kind(b)}", 0, None)
        outs = [_equiv(a.lhs, b.lhs, name), _equiv(a.rhs, b.rhs, name)]
        return _combine(outs)
    if isinstance(a, list) or isinstance(b, list):
        if not (isinstance(a, list) and isinstance(b, list) and len(a) == len(b)):
            return Outcome("refuted", "nf", "sequence shape differs", 0, None)
        return _combine([_equiv(x, y, name) for x, y in zip(a, b)])
    am, bm = isinstance(a, sp.MatrixBase), isinstance(b, sp.MatrixBase)
    if am or bm:
        if not (am and bm) or a.shape != b.shape:
            return Outcome("refuted", "nf", f"matrix shape differs: read {getattr(a, 'shape', None)}, original "
                                            f"{getattr(b, 'shape', None)}", 0, None)
        return _combine([_equiv(x, y, name) for x, y in zip(list(a), list(b))])
    if isinstance(a, sp.Piecewise) or isinstance(b, sp.Piecewise):
        if a == b:
            return Outcome("proved", "nf", "identical normal forms", 0, trivial=True)
        return Outcome("undecided", "nf", "Piecewise values are compared structurally only", 0, (a, b))
    return equiv_scalar(a, b, name)


def _combine(outs: list) -> Outcome:
    for o in outs:
        if o.verdict == "refuted":
            return o
    for o in outs:
        if o.verdict == "undecided":
            return o
    bes = sorted({o.backend for o in outs if not o.trivial}) or ["nf"]
    return Outcome("proved", "+".join(bes), "", sum(o.ms for o in outs), trivial=all(o.trivial for o in outs))


# ======================================================================================= numeric witness (replay only)
def _opaque_leaves(e, acc: dict):
    """Maximal value-opaque sub-terms of e (in canonical form), to be given independent numeric values."""
    if e.is_Number or e in (sp.pi, sp.E, sp.I):
        return
    if getattr(e, "func", None) == F_POW:
        # an opaque power stands for base**exponent: a numeric one is a CONSTANT (it has a value, it cannot be assigned one)
        for a in e.args:
            _opaque_leaves(a, acc)
        return
    if isinstance(e, (sp.Symbol, SymQuantity, sp.Indexed, sp.Idx, AppliedUndef, sp.Derivative, sp.Integral, sp.Subs)):
        acc.setdefault(e, None)
        return
    if isinstance(e, (sp.Add, sp.Mul, sp.Pow, sp.exp, sp.log, sp.sin, sp.cos, sp.tan, sp.cot, sp.Abs, sp.sinh, sp.cosh,
                      sp.tanh, sp.coth, sp.asin, sp.acos, sp.atan, sp.asinh, sp.acosh, sp.atanh, sp.factorial,
                      sp.conjugate, sp.Min, sp.Max, sp.sign)):
        for a in e.args:
            _opaque_leaves(a, acc)
        return
    acc.setdefault(e, None)


def witness(a, b, seed: int = 0, tries: int = 40):
    """A concrete point (values for the opaque atoms) at which the two canonical scalars differ; None if none found."""
    rng = random.Random(seed)
    leaves: dict = {}
    for e in (a, b):
        _opaque_leaves(_prep(e) if isinstance(e, sp.Basic) else e, leaves)
    keys = sorted(leaves, key=lambda k: sp.srepr(k))
    for t in range(tries):
        positive = t < tries // 2
        pt = {}
        for k in keys:
            v = sp.Rational(rng.randint(3, 40), rng.randint(7, 13))
            if not positive and rng.random() < 0.5 and not getattr(k, "is_positive", False):
                v = -v
            pt[k] = v
        unopaque = lambda x: x.replace(lambda t_: getattr(t_, "func", None) == F_POW, lambda t_: sp.Pow(*t_.args))
        try:
            va = complex(sp.N(unopaque(_prep(a).xreplace(pt)), 30))
            vb = complex(sp.N(unopaque(_prep(b).xreplace(pt)), 30))
        except Exception:
            continue
        if va != va or vb != vb:
            continue
        if abs(va - vb) > 1e-9 * (1 + abs(va) + abs(vb)):
            return {str_atom(k): str(v) for k, v in pt.items()}, va, vb
    return None


def str_atom(k) -> str:
    return show(k)


_show_printers: dict = {}
SHOW_MODE = "code"  # naming used in reports: the check's own naming (set by validate / replay)


def show(e, mode: Optional[str] = None) -> str:
    """Readable form of an expression for reports: atoms and functions under their display names (code names for C17,
    LaTeX names for C18), SymPy's str otherwise."""
    mode = mode or SHOW_MODE
    if mode not in _show_printers:
        from sympy.printing.str import StrPrinter

        class _Show(StrPrinter):
            printmethod = "_tv_show"  # bypass the library's _sympystr so that the naming below decides

            def _print_Symbol(self, expr):
                if isinstance(expr, R()["Symbolic"]):
                    return str(expr.name)
                return display_name(expr, mode)

            def _print_Quantity(self, expr):
                return display_name(expr, mode)

            def _print_Function(self, expr):
                f = expr.func
                if isinstance(f, R()["DimensionSymbol"]):
                    nm = f.display_name if mode == "code" else f.display_latex
                else:
                    nm = f.__name__
                return nm + "(%s)" % self.stringify(expr.args, ", ")

        _show_printers[mode] = _Show({"order": "none"})
    try:
        if isinstance(e, (list, tuple)):
            return "[" + ", ".join(show(x, mode) for x in e) + "]"
        return _show_printers[mode].doprint(e)
    except Exception:
        return str(e)


def first_difference(read, orig, seed=0):
    """For reports / replays: returns (pair, witness) for the first scalar pair that is not provably equal."""
    a, b = canon(read), canon(orig)
    out = _equiv(a, b, "")
    if out.verdict == "proved":
        return None, None
    if out.pair is None:
        return (a, b), None
    return out.pair, witness(out.pair[0], out.pair[1], seed)


# ======================================================================================= CODE reader
_CODE_RELOPS = ["==", "!=", "<=", ">=", "=", "<", ">"]
_REL = {"=": sp.Eq, "==": sp.Eq, "!=": sp.Ne, "<": sp.Lt, "<=": sp.Le, ">": sp.Gt, ">=": sp.Ge,
        r"\neq": sp.Ne, r"\ne": sp.Ne, r"\leq": sp.Le, r"\le": sp.Le, r"\geq": sp.Ge, r"\ge": sp.Ge}
_IDENT = re.compile(r"[A-Za-z_][A-Za-z_0-9]*")
_NUMBER = re.compile(r"\d+(?:\.\d*)?(?:[eE][+-]?\d+)?")
# function-call heads the code grammar knows besides the expression's own functions (SymPy class names as printed by
# StrPrinter; the custom heads of printer_code.py)
_CODE_FUNCS = {n: getattr(sp, n) for n in
               ("sin cos tan cot sec csc asin acos atan acot sinh cosh tanh coth asinh acosh atanh acoth exp "
                "factorial besselj bessely besseli besselk hermite conjugate sign Abs Min Max re im arg floor ceiling "
                "gamma erf legendre").split()}
_UNCOVERED_HEADS = {"Piecewise", "Matrix", "Subs", "Limit", "Mod", "Heaviside", "DiracDelta"}


def number_value(text: str):
    if re.fullmatch(r"\d+", text):
        return sp.Integer(int(text))
    fr = Fraction(text)  # a decimal literal denotes exactly the printed decimal
    return sp.Rational(fr.numerator, fr.denominator)


COVERED_HEADS = set(
    "Equality Unequality StrictLessThan LessThan StrictGreaterThan GreaterThan Add Mul Pow Derivative Integral Tuple "
    "log exp sin cos tan cot sec csc sinh cosh tanh coth asin acos atan acot asinh acosh atanh acoth Abs factorial sign "
    "conjugate hermite besselj besselk besseli bessely Min Max IndexedSum IndexedProduct Order MatMul Indexed Idx "
    "Piecewise ExprCondPair".split())


def check_covered(names: Names):
    extra = sorted(names.heads - COVERED_HEADS)
    if extra:
        raise Uncovered(f"the expression contains {', '.join(extra)}: outside the reference reader")


class _Tup(tuple):
    pass


def _div(a, b):
    if isinstance(b, sp.MatrixBase):
        raise Uncovered("division by a matrix")
    return a * sp.Pow(b, -1)


class CodeReader:
    """Grammar (ordinary arithmetic precedence, property C17):

        relation := sum [relop sum]                 relop: = == != < <= > >=
        sum      := term (('+'|'-') term)*          left associative
        term     := unary (('*'|'/') unary)*        left associative:  a / b * c = (a / b) * c,  a / b / c = (a / b) / c
        unary    := '-' unary | power               -x^2 = -(x^2),  x^-y = x^(-y)
        power    := postfix ['^' unary]             right associative: x^y^z = x^(y^z)
        postfix  := primary ['.T']
        primary  := NUMBER | NAME | NAME '(' args ')' | '(' relation ')' | '[' list ']'
    NAME is a display name of one of the expression's atoms (longest match, may contain blanks / digits / brackets), or
    one of the known function heads.  `dX` (X a display name) is the exact differential of X.
    """

    def __init__(self, s: str, names: Names):
        self.s = s
        self.n = len(s)
        self.pos = 0
        self.names = names
        self._sym_names = sorted(names.symbols, key=len, reverse=True)
        self._fun_names = sorted(names.functions, key=len, reverse=True)

    # ------------------------------------------------------------------ helpers
    def ws(self):
        while self.pos < self.n and self.s[self.pos] == " ":
            self.pos += 1

    def peek(self, k=1):
        return self.s[self.pos:self.pos + k]

    def err(self, msg):
        return Malformed(f"{msg} at column {self.pos}: ...{self.s[max(0, self.pos - 12):self.pos]}>>>{self.s[self.pos:self.pos + 16]}")

    def expect(self, ch):
        self.ws()
        if self.peek(len(ch)) != ch:
            raise self.err(f"expected '{ch}'")
        self.pos += len(ch)

    def _boundary_ok(self, name: str, end: int) -> bool:
        if end >= self.n:
            return True
        last, nxt = name[-1], self.s[end]
        if (last.isalnum() or last == "_") and (nxt.isalnum() or nxt == "_"):
            return False
        return True

    def match_known(self, table_names, at=None, need_paren=False):
        at = self.pos if at is None else at
        for nm in table_names:  # longest first
            if self.s.startswith(nm, at):
                end = at + len(nm)
                if need_paren:
                    if end < self.n and self.s[end] == "(":
                        return nm, end
                    continue
                if self._boundary_ok(nm, end):
                    return nm, end
        return None, at

    # ------------------------------------------------------------------ grammar
    def parse(self):
        e = self.relation()
        self.ws()
        if self.pos != self.n:
            raise self.err("unexpected trailing input")
        return e

    def relop(self):
        self.ws()
        for op in _CODE_RELOPS:
            if self.peek(len(op)) == op:
                return op
        return None

    def relation(self):
        l = self.sum()
        op = self.relop()
        if op is None:
            return l
        self.pos += len(op)
        r = self.sum()
        return _REL[op](l, r, evaluate=False)

    def sum(self):
        acc = self.term()
        while True:
            self.ws()
            c = self.peek()
            if c == "+":
                self.pos += 1
                acc = acc + self.term()
            elif c == "-":
                self.pos += 1
                acc = acc - self.term()
            else:
                return acc

    def term(self):
        acc = self.unary()
        while True:
            self.ws()
            c = self.peek()
            if c == "*":
                if self.peek(2) == "**":
                    raise self.err("'**' is not the power sign of the code rendering")
                self.pos += 1
                acc = acc * self.unary()
            elif c == "/":
                self.pos += 1
                acc = _div(acc, self.unary())
            else:
                return acc

    def unary(self):
        self.ws()
        c = self.peek()
        if c == "-":
            self.pos += 1
            return -self.unary()
        if c == "+":
            self.pos += 1
            return self.unary()
        return self.power()

    def power(self):
        b = self.postfix()
        self.ws()
        if self.peek() == "^":
            self.pos += 1
            x = self.unary()
            return sp.Pow(b, x)
        return b

    def postfix(self):
        p = self.primary()
        while self.peek(2) == ".T":
            self.pos += 2
            if not isinstance(p, sp.MatrixBase):
                raise self.err("'.T' after a non-matrix")
            p = p.T
        return p

    def args(self):
        """'(' already consumed; returns list of parsed arguments up to the matching ')'."""
        out = []
        self.ws()
        if self.peek() == ")":
            self.pos += 1
            return out
        while True:
            out.append(self.relation())
            self.ws()
            c = self.peek()
            if c == ",":
                self.pos += 1
                continue
            if c == ")":
                self.pos += 1
                return out
            raise self.err("expected ',' or ')'")

    def primary(self):
        self.ws()
        if self.pos >= self.n:
            raise self.err("unexpected end")
        c = self.peek()
        # 1. display names of the expression's atoms, longest match; functions need their '('
        fn, fend = self.match_known(self._fun_names, need_paren=True)
        sn, send = self.match_known(self._sym_names)
        if fn is not None and (sn is None or len(fn) >= len(sn)):
            f = self.names.lookup(self.names.functions, fn)
            self.pos = fend + 1
            a = self.args()
            try:
                return f(*a)
            except Exception as ex:
                raise Malformed(f"function {fn} applied to {len(a)} arguments: {ex}")
        if sn is not None:
            self.pos = send
            return self.names.lookup(self.names.symbols, sn)
        if c == "(":
            self.pos += 1
            first = self.relation()
            self.ws()
            if self.peek() == ",":
                items = [first]
                while self.peek() == ",":
                    self.pos += 1
                    items.append(self.relation())
                    self.ws()
                self.expect(")")
                return _Tup(items)
            self.expect(")")
            return first
        if c == "[":
            return self.listing()
        m = _NUMBER.match(self.s, self.pos)
        if m:
            end = m.end()
            if end < self.n and (self.s[end].isalpha() or self.s[end] == "_"):
                raise UnknownName(f"'{self.s[self.pos:end + 8].split(' ')[0]}' is neither a number nor a display name "
                                  f"of an atom of the expression")
            self.pos = end
            return number_value(m.group())
        m = _IDENT.match(self.s, self.pos)
        if not m:
            raise self.err(f"unexpected character '{c}'")
        word = m.group()
        end = m.end()
        # 2. exact differential written dX
        if word[0] == "d" and len(word) > 1:
            sn, send = self.match_known(self._sym_names, at=self.pos + 1)
            if sn is not None:
                self.pos = send
                return F_D(self.names.lookup(self.names.symbols, sn))
        if end < self.n and self.s[end] == "(":
            self.pos = end + 1
            return self.call(word)
        consts = {"pi": sp.pi, "E": sp.E, "I": sp.I, "oo": sp.oo, "zoo": sp.zoo, "nan": sp.nan}
        if word in consts:
            self.pos = end
            return consts[word]
        raise UnknownName(f"identifier '{word}' is not a display name of an atom of the expression")

    def listing(self):
        self.expect("[")
        items = []
        self.ws()
        if self.peek() == "]":
            raise Uncovered("empty list")
        while True:
            self.ws()
            if self.peek() == "[":
                items.append(self.row())
            else:
                items.append(self.relation())
            self.ws()
            c = self.peek()
            if c == ",":
                self.pos += 1
                continue
            if c == "]":
                self.pos += 1
                break
            raise self.err("expected ',' or ']'")
        if all(isinstance(i, list) for i in items):
            if len({len(i) for i in items}) != 1:
                raise self.err("ragged matrix")
            return sp.ImmutableMatrix(items)
        if any(isinstance(i, list) for i in items):
            raise self.err("mixed list")
        return sp.ImmutableMatrix(len(items), 1, items)  # a flat list is a column; '.T' makes it a row

    def row(self):
        self.expect("[")
        out = []
        while True:
            out.append(self.relation())
            self.ws()
            c = self.peek()
            if c == ",":
                self.pos += 1
                continue
            if c == "]":
                self.pos += 1
                return out
            raise self.err("expected ',' or ']'")

    def call(self, head: str):
        a = self.args()

        def need(k):
            if len(a) not in (k if isinstance(k, tuple) else (k,)):
                raise Malformed(f"{head} with {len(a)} arguments")

        if head == "sqrt":
            need(1)
            return sp.sqrt(a[0])
        if head == "log":
            need((1, 2))
            return sp.log(*a)
        if head in ("abs",):
            need(1)
            return sp.Abs(a[0])
        if head == "avg":
            need(1)
            return F_AVG(a[0])
        if head == "Delta":
            need(1)
            return F_DELTA(a[0])
        if head == "d":
            need(1)
            return F_D(a[0])
        if head == "delta":
            need(1)
            return F_INEXACT(a[0])
        if head == "O":
            need(1)
            return F_ORDER(a[0])
        if head in ("Sum", "Product"):
            need(2)
            if isinstance(a[1], _Tup):
                return (sp.Sum if head == "Sum" else sp.Product)(a[0], tuple(a[1]))
            return (F_ISUM if head == "Sum" else F_IPROD)(a[0], a[1])
        if head == "Derivative":
            if len(a) < 2:
                raise Malformed("Derivative without variable")
            vs = []
            for v in a[1:]:
                vs.append((v[0], v[1]) if isinstance(v, _Tup) and len(v) == 2 else v)
            return sp.Derivative(a[0], *vs)
        if head == "Integral":
            if len(a) < 2:
                raise Malformed("Integral without variable")
            return sp.Integral(a[0], *[tuple(v) if isinstance(v, _Tup) else v for v in a[1:]])
        if head in _CODE_FUNCS:
            try:
                return _CODE_FUNCS[head](*a)
            except TypeError as ex:
                raise Malformed(f"{head} applied to {len(a)} arguments: {ex}")
        if head in _UNCOVERED_HEADS or head in self.names.heads or (hasattr(sp, head) and isinstance(getattr(sp, head), type)):
            raise Uncovered(f"construct {head}(...) is outside the code reader")
        raise UnknownName(f"function name '{head}' is not a display name of a function of the expression")


def read_code(s: str, expr) -> Any:
    """Reference reading of a code rendering `s` of `expr` (only the atoms' display names of `expr` are used)."""
    names = collect_names(expr, "code")
    check_covered(names)
    with sp.evaluate(True):
        return CodeReader(s, names).parse()


# ======================================================================================= LaTeX well-formedness
def tex_wellformed(s: str) -> Optional[str]:
    """None if braces are balanced, every \\left has its \\right at the same nesting, \\begin/\\end match; else the reason."""
    toks = tex_tokens(s)
    stack = []
    i = 0
    while i < len(toks):
        t = toks[i]
        if t == "{":
            stack.append("{")
        elif t == "}":
            if not stack or stack[-1] != "{":
                return f"unbalanced '}}' (open: {stack[-1] if stack else 'nothing'})"
            stack.pop()
        elif t == r"\left":
            stack.append(r"\left")
            i += 1  # delimiter
            if i >= len(toks):
                return r"\left without delimiter"
        elif t == r"\right":
            if not stack or stack[-1] != r"\left":
                return rf"\right without matching \left at the same nesting (open: {stack[-1] if stack else 'nothing'})"
            stack.pop()
            i += 1
            if i >= len(toks):
                return r"\right without delimiter"
        elif t == r"\begin":
            env = "".join(toks[i + 2:toks.index("}", i)]) if "{" in toks[i + 1:i + 2] and "}" in toks[i:] else "?"
            stack.append(("env", env))
            i = toks.index("}", i) if "}" in toks[i:] else i
        elif t == r"\end":
            env = "".join(toks[i + 2:toks.index("}", i)]) if "{" in toks[i + 1:i + 2] and "}" in toks[i:] else "?"
            if not stack or stack[-1] != ("env", env):
                return rf"\end{{{env}}} without matching \begin"
            stack.pop()
            i = toks.index("}", i) if "}" in toks[i:] else i
        i += 1
    if stack:
        return f"unclosed {stack[-1] if isinstance(stack[-1], str) else stack[-1][1]}"
    return None


# ======================================================================================= LaTeX reader
_TEX_RELOPS = {"=", "<", ">", r"\leq", r"\geq", r"\neq", r"\le", r"\ge", r"\ne"}
_TEX_STOP = {"+", "-", "}", r"\right", "&", r"\\", r"\end", ",", r"\rangle", ")", "]", None} | _TEX_RELOPS
_TEX_FUNCS = {r"\sin": sp.sin, r"\cos": sp.cos, r"\tan": sp.tan, r"\cot": sp.cot, r"\sec": sp.sec, r"\csc": sp.csc,
              r"\sinh": sp.sinh, r"\cosh": sp.cosh, r"\tanh": sp.tanh, r"\coth": sp.coth,
              r"\arcsin": sp.asin, r"\arccos": sp.acos, r"\arctan": sp.atan, r"\ln": sp.log}
_OPNAMES = {n: getattr(sp, n) for n in
            "asin acos atan acot asec acsc asinh acosh atanh acoth sech csch sign erf floor ceiling".split()}
_OPNAMES.update({"re": sp.re, "im": sp.im, "arg": sp.arg})
_TEXT_CMDS = {r"\text", r"\mathrm", r"\mathbf", r"\mathcal", r"\mathfrak", r"\operatorname", r"\mathit", r"\textbf"}


class _Op:
    """A prefix operator waiting for the remainder of its multiplicative term."""

    def __init__(self, kind, data):
        self.kind, self.data = kind, data

    def apply(self, operand):
        if self.kind == "deriv":
            return sp.Derivative(operand, *self.data)
        if self.kind == "sum":
            return F_ISUM(operand, self.data)
        if self.kind == "prod":
            return F_IPROD(operand, self.data)
        raise AssertionError(self.kind)


class TexReader:
    r"""Grammar and reading conventions (property C18, DESIGN.md C18):

        relation := sum [relop sum]
        sum      := ['-'] term (('+'|'-') term)*
        term     := factor+                juxtaposition, \cdot, \times are products
                  | factor* OP term        OP = \frac{d^n}{d x^n}, \frac{\partial^n}{\partial x ...}, \sum_i, \prod_i :
                                           a differential / summation operator applies to the REMAINDER of its term
        factor   := base ('^' group | '!')*        a postfix binds to the immediately preceding atom or bracket group;
                                           \log \left( x \right)^{2} is the square of the logarithm
        base     := NUMBER | NAME | NAME [^{n}] {\left( args \right)} | \frac{a}{b} | \sqrt[n]{a} | { sum }
                  | \left( sum \right) | \left| sum \right| | \langle sum \rangle | \fn[^{n}]{\left( a \right)}
                  | \log[_{b}] \left( a \right) | \exp{...} | \operatorname{fn}... | \Delta base | \delta base | d base
                  | \int[\limits_{a}^{b}] term \, d x | \begin{pmatrix}..\end{pmatrix} | \begin{cases}..\end{cases}
    NAME is a LaTeX display name of one of the expression's atoms, compared modulo grouping braces and spacing
    (sub/superscripts are part of names).  \Delta, \delta and d prefix the immediately following base.
    """

    def __init__(self, toks: list, names: Names):
        self.t = toks
        self.i = 0
        self.names = names
        self._sym = sorted(names.symbols, key=len, reverse=True)
        self._fun = sorted(names.functions, key=len, reverse=True)

    # ------------------------------------------------------------------ token helpers
    def skip(self):
        while self.i < len(self.t) and self.t[self.i] in _TEX_SPACING:
            self.i += 1

    def peek(self, k=0):
        self.skip()
        j = self.i
        while k > 0:
            j += 1
            while j < len(self.t) and self.t[j] in _TEX_SPACING:
                j += 1
            k -= 1
        return self.t[j] if j < len(self.t) else None

    def next(self):
        self.skip()
        if self.i >= len(self.t):
            raise self.err("unexpected end")
        tk = self.t[self.i]
        self.i += 1
        return tk

    def expect(self, tok):
        tk = self.peek()
        if tk != tok:
            raise self.err(f"expected '{tok}'")
        self.next()

    def err(self, msg):
        ctx = " ".join(self.t[max(0, self.i - 6):self.i]) + " >>> " + " ".join(self.t[self.i:self.i + 8])
        return Malformed(f"{msg} at token {self.i}: {ctx}")

    def sub(self, toks):
        return TexReader(toks, self.names)

    def group_tokens(self):
        """'{' ... '}' at the cursor: returns the inner token list and moves past the group."""
        self.expect("{")
        depth, j = 1, self.i
        while j < len(self.t):
            if self.t[j] == "{":
                depth += 1
            elif self.t[j] == "}":
                depth -= 1
                if depth == 0:
                    inner = self.t[self.i:j]
                    self.i = j + 1
                    return inner
            j += 1
        raise self.err("unbalanced '{'")

    def group_expr(self):
        inner = self.group_tokens()
        return self.sub(inner).parse_all("sum")

    def parse_all(self, what="relation"):
        e = getattr(self, what)()
        if self.peek() is not None:
            raise self.err("unexpected trailing input")
        return e

    # ------------------------------------------------------------------ names
    def _match_key(self, key, at):
        """Match the brace/space-less token key at position `at`; returns end position or None."""
        j, k, depth = at, 0, 0
        n = len(self.t)
        while k < len(key):
            if j >= n:
                return None
            tk = self.t[j]
            if tk == "{":
                depth += 1
            elif tk == "}":
                depth -= 1
                if depth < 0:
                    return None
            elif tk in _TEX_SPACING:
                pass
            elif tk == key[k]:
                k += 1
            else:
                return None
            j += 1
        while depth > 0 and j < n and self.t[j] == "}":
            depth -= 1
            j += 1
        if depth != 0:
            return None
        return j

    def match_name(self, keys):
        self.skip()
        for key in keys:  # longest first
            end = self._match_key(key, self.i)
            if end is not None:
                return key, end
        return None, self.i

    def _applies(self, j):
        """Is there a function application `{\\left(` (optionally after `^{..}`) at token position j?"""
        t = self.t
        while j < len(t) and t[j] in _TEX_SPACING:
            j += 1
        if j < len(t) and t[j] == "^":
            j += 1
            if j < len(t) and t[j] == "{":
                depth = 0
                while j < len(t):
                    if t[j] == "{":
                        depth += 1
                    elif t[j] == "}":
                        depth -= 1
                        if depth == 0:
                            j += 1
                            break
                    j += 1
            else:
                j += 1
        return t[j:j + 3] == ["{", r"\left", "("]

    # ------------------------------------------------------------------ grammar
    def relation(self):
        l = self.sum()
        tk = self.peek()
        if tk in _TEX_RELOPS:
            self.next()
            r = self.sum()
            return _REL[tk](l, r, evaluate=False)
        return l

    def sum(self):
        tk = self.peek()
        neg = False
        if tk == "-":
            self.next()
            neg = True
        elif tk == "+":
            self.next()
        acc = self.term()
        if neg:
            acc = -acc
        while True:
            tk = self.peek()
            if tk in ("+", "-"):
                self.next()
                sign = 1 if tk == "+" else -1
                if self.peek() == "-":  # 'a + - b', 'a - - b': a signed term after a binary sign (value is unambiguous)
                    self.next()
                    sign = -sign
                t = self.term()
                acc = acc + t if sign > 0 else acc - t
            else:
                return acc

    def term(self):
        factors = []
        explicit = True  # an explicit multiplication sign (or the start of the term) precedes the next factor
        while True:
            tk = self.peek()
            if tk == "|" and self.match_name(self._sym)[0] is not None:
                factors.append(self.factor())  # a display name such as |Z|
                explicit = False
                continue
            if tk in _TEX_STOP or tk == "|":
                break
            if tk in (r"\cdot", r"\times"):
                self.next()
                explicit = True
                continue
            if tk == "/" and factors:  # inline quotient a/b (SymPy writes rational exponents that way in one place)
                self.next()
                factors[-1] = _div(factors[-1], self.factor())
                explicit = False
                continue
            op = self.operator()
            if op is not None:
                operand = self.term()
                factors.append(op.apply(operand))
                break
            # two NUMERALS separated by nothing but a space ("5 10^{x}", "x 2 1000") do not read as a product -- the digits run together;
            # a rendering has to put \cdot / \times between them
            self.skip()
            prev = self.t[self.i - 1] if self.i > 0 else ""
            if factors and not explicit and isinstance(tk, str) and tk[:1].isdigit() and isinstance(prev, str) and prev[-1:].isdigit():
                raise Malformed(f"the numerals {prev!r} and {tk!r} are juxtaposed without a multiplication sign")
            factors.append(self.factor())
            explicit = False
        if not factors:
            raise self.err("empty term")
        acc = factors[0]
        for f in factors[1:]:
            acc = acc * f
        return acc

    # prefix operators -------------------------------------------------
    def operator(self) -> Optional[_Op]:
        tk = self.peek()
        if tk in (r"\sum", r"\prod"):
            save = self.i
            self.next()
            if self.peek() != "_":
                raise Uncovered(f"{tk} without a subscript index")
            self.next()
            if self.peek() == "{":
                inner = self.group_tokens()
                if "=" in inner:
                    raise Uncovered(f"{tk} with explicit limits")
                idx = self.sub(inner).parse_all("base")
            else:
                idx = self.base()
            if self.peek() == "^":
                raise Uncovered(f"{tk} with explicit limits")
            return _Op("sum" if tk == r"\sum" else "prod", idx)
        if tk == r"\frac":
            save = self.i
            op = self.try_derivative()
            if op is None:
                self.i = save
            return op
        return None

    def try_derivative(self) -> Optional[_Op]:
        r"""\frac{D}{D x} | \frac{D^{n}}{D x^{k} D y ...}  with D in {d, \partial}; None if the fraction is not of that shape."""
        self.expect(r"\frac")
        if self.peek() != "{":
            return None
        num = [t for t in self.group_tokens() if t not in _TEX_SPACING]
        if not num or num[0] not in ("d", r"\partial"):
            return None
        D = num[0]
        if len(num) == 1:
            order = 1
        elif len(num) == 5 and num[1] == "^" and num[2] == "{" and num[4] == "}" and num[3].isdigit():
            order = int(num[3])
        else:
            return None
        if self.peek() != "{":
            return None
        den = self.group_tokens()
        rd = self.sub(den)
        vs = []
        total = 0
        try:
            while rd.peek() is not None:
                if rd.peek() != D:
                    return None
                rd.next()
                v = rd.base()
                k = 1
                if rd.peek() == "^":
                    rd.next()
                    kk = rd.group_expr() if rd.peek() == "{" else number_value(rd.next())
                    if not (isinstance(kk, sp.Integer) and kk > 0):
                        return None
                    k = int(kk)
                vs.append((v, k))
                total += k
        except Ambiguous:
            raise
        except ReadError:
            return None
        if not vs or total != order:
            return None
        if D == "d" and ("d",) in self.names.symbols:
            raise Ambiguous(r"the expression has an atom displayed as 'd' and the rendering has a \frac{d}{d x} operator")
        # the printer lists the variables in reverse order of differentiation
        return _Op("deriv", list(reversed(vs)))

    # factors ------------------------------------------------------------
    def factor(self):
        b = self.base()
        return self.postfixes(b)

    def postfixes(self, b):
        while True:
            tk = self.peek()
            if tk == "^":
                self.next()
                x = self.exponent()
                b = sp.Pow(b, x)
            elif tk == "!":
                self.next()
                b = sp.factorial(b)
            else:
                return b

    def exponent(self):
        if self.peek() == "{":
            return self.group_expr()
        tk = self.next()
        if re.fullmatch(r"\d+(\.\d+)?", tk):
            return number_value(tk)
        self.i -= 1
        return self.base()

    def call_args(self):
        r"""`{\left( a,b \right)}` at the cursor."""
        self.expect("{")
        self.expect(r"\left")
        self.expect("(")
        args = [self.sum()]
        while self.peek() == ",":
            self.next()
            args.append(self.sum())
        self.expect(r"\right")
        self.expect(")")
        self.expect("}")
        return args

    def func_tail(self, f, fname):
        """After a function head: optional ^{n}, then the argument; returns the (powered) application."""
        power = None
        if self.peek() == "^":
            self.next()
            power = self.exponent()
        tk = self.peek()
        if tk == "{":
            if self.t[self.i:self.i + 3] == ["{", r"\left", "("] or self.peek(1) == r"\left":
                args = self.call_args()
            else:
                args = [self.group_expr()]  # folded brackets: \sin {x}
        elif tk == r"\left":
            self.next()
            self.expect("(")
            args = [self.sum()]
            while self.peek() == ",":
                self.next()
                args.append(self.sum())
            self.expect(r"\right")
            self.expect(")")
        else:
            raise self.err(f"function {fname} without bracketed argument")
        try:
            val = f(*args)
        except TypeError as ex:
            raise Malformed(f"{fname} applied to {len(args)} arguments: {ex}")
        if power is not None:
            if power == -1 and f in (sp.sin, sp.cos, sp.tan, sp.cot, sp.sinh, sp.cosh, sp.tanh):
                raise Uncovered(f"{fname}^{{-1}} (inverse-function notation)")
            val = sp.Pow(val, power)
        return val

    def bracket(self):
        r"""\left( sum \right)"""
        self.expect(r"\left")
        d = self.next()
        if d == "(":
            e = self.sum()
            self.expect(r"\right")
            self.expect(")")
            return e
        if d == "|":
            e = self.sum()
            self.expect(r"\right")
            self.expect("|")
            return sp.Abs(e)
        raise Uncovered(rf"delimiter \left{d}")

    def base(self):
        tk = self.peek()
        if tk is None:
            raise self.err("unexpected end")
        # 1. display names of the expression's atoms (longest match)
        fk, fend = self.match_name(self._fun)
        sk, send = self.match_name(self._sym)
        if fk is not None and not self._applies(fend):
            fk = None
        if fk is not None and (sk is None or len(fk) >= len(sk)):
            f = self.names.lookup(self.names.functions, fk)
            self.i = fend
            return self.func_tail(f, " ".join(fk))
        if sk is not None:
            self.i = send
            return self.names.lookup(self.names.symbols, sk)
        # 2. structure
        if re.fullmatch(r"\d+(\.\d+)?", tk):
            self.next()
            return number_value(tk)
        if tk == "{":
            return self.group_expr()
        if tk == r"\left":
            return self.bracket()
        if tk == "(":
            self.next()
            e = self.sum()
            self.expect(")")
            return e
        if tk == r"\frac":
            self.next()
            a = self.group_expr()
            b = self.group_expr()
            return _div(a, b)
        if tk == r"\sqrt":
            self.next()
            n = sp.Integer(2)
            if self.peek() == "[":
                self.next()
                j = self.i
                depth = 0
                while j < len(self.t) and not (self.t[j] == "]" and depth == 0):
                    depth += {"{": 1, "}": -1}.get(self.t[j], 0)
                    j += 1
                if j >= len(self.t):
                    raise self.err("unbalanced '['")
                n = self.sub(self.t[self.i:j]).parse_all("sum")
                self.i = j + 1
            a = self.group_expr()
            return sp.Pow(a, 1 / n)
        if tk in _TEX_FUNCS:
            self.next()
            return self.func_tail(_TEX_FUNCS[tk], tk)
        if tk == r"\operatorname":
            self.next()
            nm = "".join(self.group_tokens())
            if nm not in _OPNAMES:
                raise Uncovered(rf"\operatorname{{{nm}}}")
            return self.func_tail(_OPNAMES[nm], nm)
        if tk == r"\log":
            self.next()
            base = None
            if self.peek() == "_":
                self.next()
                base = self.group_expr() if self.peek() == "{" else self.base()
            if self.peek() == "^":
                raise Uncovered(r"\log^{n}")
            if self.peek() == r"\left":
                arg = self.bracket()
            elif self.peek() == "{":
                inner = self.group_tokens()
                arg = self.sub(inner).parse_all("sum")
            else:
                raise self.err(r"\log without bracketed argument")
            return sp.log(arg) if base is None else sp.log(arg, base)
        if tk == r"\exp":
            self.next()
            if self.peek() != "{":
                raise self.err(r"\exp without group")
            return sp.exp(self.group_expr())
        if tk in (r"\min", r"\max"):
            self.next()
            self.expect(r"\left")
            self.expect("(")
            args = [self.sum()]
            while self.peek() == ",":
                self.next()
                args.append(self.sum())
            self.expect(r"\right")
            self.expect(")")
            return (sp.Min if tk == r"\min" else sp.Max)(*args)
        if tk == r"\langle":
            self.next()
            e = self.sum()
            self.expect(r"\rangle")
            return F_AVG(e)
        if tk == r"\overline":
            self.next()
            return sp.conjugate(self.group_expr())
        if tk in (r"\Delta", r"\delta", "d"):
            self.next()
            head = {r"\Delta": F_DELTA, r"\delta": F_INEXACT, "d": F_D}[tk]
            nxt = self.peek()
            if nxt in _TEX_STOP or nxt in ("^", "_", "!"):
                raise UnknownName(f"'{tk}' is not a display name of an atom of the expression")
            return head(self.base())
        if tk == r"\int":
            return self.integral()
        if tk == r"\begin":
            return self.environment()
        if tk in ("O", "J", "K", "H", "I", "Y") and self._special_ahead():
            return self.special()
        consts = {r"\pi": sp.pi, "e": sp.E, "i": sp.I, r"\infty": sp.oo, r"\tilde": None}
        if consts.get(tk) is not None:
            self.next()
            return consts[tk]
        if tk in (r"\iint", r"\iiint", r"\oint", r"\lim", r"\bigcup", r"\setminus", r"\wedge", r"\vee", r"\otimes",
                  r"\circ", r"\dagger", r"\binom", r"\lfloor", r"\lceil", r"\Gamma", r"\theta", r"\mod", r"\bmod"):
            raise Uncovered(f"construct {tk}")
        if tk.isalpha() or (tk.startswith("\\") and tk[1:].isalpha()):
            raise UnknownName(f"'{tk}' is not (the start of) a LaTeX display name of an atom of the expression")
        raise self.err(f"unexpected token '{tk}'")

    # special SymPy function formats: O\left(x\right), J_{n}\left(x\right), K_{n}.., H_{n}..
    def _special_ahead(self):
        j = self.i + 1
        t = self.t
        if self.t[self.i] == "O":
            return t[j:j + 2] == [r"\left", "("]
        if j < len(t) and t[j] == "_":
            j += 1
            if j < len(t) and t[j] == "{":
                depth = 0
                while j < len(t):
                    depth += {"{": 1, "}": -1}.get(t[j], 0)
                    j += 1
                    if depth == 0:
                        break
                return t[j:j + 2] == [r"\left", "("]
        return False

    def special(self):
        tk = self.next()
        if tk == "O":
            self.expect(r"\left")
            self.expect("(")
            a = self.sum()
            if self.peek() == ";":
                raise Uncovered("Order with a limit point")
            self.expect(r"\right")
            self.expect(")")
            return F_ORDER(a)
        self.expect("_")
        nu = self.group_expr()
        self.expect(r"\left")
        self.expect("(")
        z = self.sum()
        self.expect(r"\right")
        self.expect(")")
        f = {"J": sp.besselj, "K": sp.besselk, "I": sp.besseli, "Y": sp.bessely, "H": sp.hermite}[tk]
        return f(nu, z)

    def integral(self):
        r"""\int[\limits_{a}^{b}] ... \int[..] integrand \, d x \, d y : the k-th sign from the left pairs with the k-th
        differential from the right; the integrand extends to the first `\, d` at its own nesting depth."""
        signs = []
        while self.peek() == r"\int":
            self.next()
            lim = None
            if self.peek() == r"\limits":
                self.next()
            if self.peek() == "_":
                self.next()
                lo = self.group_expr() if self.peek() == "{" else self.base()
                if self.peek() != "^":
                    raise Uncovered("integral with a lower limit only")
                self.next()
                hi = self.group_expr() if self.peek() == "{" else self.base()
                lim = (lo, hi)
            elif self.peek() == "^":
                raise Uncovered("integral with an upper limit only")
            signs.append(lim)
        # find the terminator `\, d` at depth 0
        j, depth = self.i, 0
        end = None
        while j < len(self.t):
            tk = self.t[j]
            if tk in ("{", r"\left", r"\begin"):
                depth += 1
            elif tk in ("}", r"\right", r"\end"):
                depth -= 1
                if depth < 0:
                    break
            elif tk == r"\," and depth == 0 and j + 1 < len(self.t) and self.t[j + 1] == "d":
                end = j
                break
            j += 1
        if end is None:
            raise self.err(r"integral without '\, d x'")
        body = self.sub(self.t[self.i:end]).parse_all("sum")
        self.i = end
        diffs = []
        for _ in signs:
            if self.i < len(self.t) and self.t[self.i] == r"\,":
                self.i += 1
            if self.peek() != "d":
                raise self.err("fewer differentials than integral signs")
            self.next()
            diffs.append(self.base())
        lims = []
        for k, v in enumerate(diffs):
            lim = signs[len(signs) - 1 - k]
            lims.append((v,) if lim is None else (v, lim[0], lim[1]))
        return sp.Integral(body, *lims)

    def environment(self):
        self.expect(r"\begin")
        env = "".join(self.group_tokens())
        if env in ("pmatrix", "bmatrix", "matrix"):
            rows, row = [], []
            while True:
                row.append(self.sum())
                tk = self.peek()
                if tk == "&":
                    self.next()
                elif tk == r"\\":
                    self.next()
                    rows.append(row)
                    row = []
                elif tk == r"\end":
                    self.next()
                    if "".join(self.group_tokens()) != env:
                        raise self.err("mismatched \\end")
                    rows.append(row)
                    break
                else:
                    raise self.err("unexpected token in matrix")
            if len({len(r_) for r_ in rows}) != 1:
                raise self.err("ragged matrix")
            return sp.ImmutableMatrix(rows)
        if env == "cases":
            pieces = []
            while True:
                val = self.sum()
                self.expect("&")
                if self.peek() != r"\text":
                    raise Uncovered("cases row without \\text{for}/\\text{otherwise}")
                self.next()
                word = "".join(self.group_tokens())
                if word == "for":
                    cond = self.relation()
                    if not isinstance(cond, Relational):
                        raise Uncovered("cases condition that is not a single relation")
                elif word == "otherwise":
                    cond = sp.true
                else:
                    raise Uncovered(f"cases row with \\text{{{word}}}")
                pieces.append((val, cond))
                tk = self.peek()
                if tk == r"\\":
                    self.next()
                    continue
                if tk == r"\end":
                    self.next()
                    self.group_tokens()
                    break
                if tk in (r"\wedge", r"\vee", r"\neg"):
                    raise Uncovered("compound condition in cases")
                raise self.err("unexpected token in cases")
            return sp.Piecewise(*pieces, evaluate=False)
        raise Uncovered(f"environment {env}")


def read_tex(s: str, expr) -> Any:
    """Reference reading of a LaTeX rendering `s` of `expr`.  Raises Malformed first if `s` is not well-formed."""
    why = tex_wellformed(s)
    if why:
        raise Malformed("not well-formed: " + why)
    names = collect_names(expr, "latex")
    check_covered(names)
    with sp.evaluate(True):
        return TexReader(tex_tokens(s), names).parse_all("relation")


# ======================================================================================= one rendering -> one obligation
@dataclass
class Result:
    ob: Optional[Ob] = None
    out_of_reach: Optional[tuple] = None  # (name, why)
    rendered: str = ""
    trivial: bool = False
    reads_as: str = ""  # for a disagreement: what the rendering reads as / why it does not read


def validate(kind: str, expr, name: str, signature: str, replay_spec: dict) -> Result:
    """kind: 'code' | 'latex'.  Produces one Ob (proved / refuted) or an out_of_reach entry for this output."""
    global SHOW_MODE
    SHOW_MODE = kind
    code_str, latex_str = printers()
    t0 = time.time()
    ms = lambda: (time.time() - t0) * 1000

    def refuted(detail, backend="reader"):
        return Result(Ob(name, REFUTED, backend, ms(), detail, signature, make_replay(kind, replay_spec)), rendered=s,
                      reads_as=detail)

    s = ""
    try:
        with sp.evaluate(True):
            s = (code_str if kind == "code" else latex_str)(expr)
    except Exception as ex:
        return refuted(f"printer raised {type(ex).__name__}: {ex} (no rendering produced)", "printer")
    try:
        rd = read_code(s, expr) if kind == "code" else read_tex(s, expr)
    except Malformed as m:
        return refuted(f"rendering {s!r} does not read: {m}")
    except (Uncovered, Ambiguous) as u:
        return Result(out_of_reach=(name, f"{type(u).__name__.lower()}: {u} | rendering: {s}"), rendered=s)
    except RecursionError:
        return Result(out_of_reach=(name, f"reader recursion limit | rendering: {s[:200]}"), rendered=s)
    try:
        out = equiv(rd, expr, name)
    except Exception as ex:
        return Result(out_of_reach=(name, f"equivalence step failed: {type(ex).__name__}: {str(ex)[:200]} | rendering: {s}"),
                      rendered=s)
    if out.verdict == "proved":
        return Result(Ob(name, PROVED, out.backend, ms(), "identical normal forms" if out.trivial else "", signature),
                      rendered=s, trivial=out.trivial)
    if out.verdict == "refuted":
        w = None
        if out.pair is not None:
            try:
                w = witness(out.pair[0], out.pair[1])
            except Exception:
                w = None
        if out.pair is not None and w is None:
            # neither an SMT countermodel over opaque atoms nor a "non-zero polynomial over independent atoms" is a verdict
            # unless a concrete point realises it: numeric radicals (3^(1/9), 62208^(1/9), ...) are NOT independent atoms
            return Result(out_of_reach=(name, f"undecided: the {out.backend} refutation is not realised at any concrete point "
                                              f"(algebraically dependent atoms?) | rendering: {s}"), rendered=s)
        detail = f"rendering {s!r} reads as {show(canon(rd))} ; original {show(canon(expr))} ; {out.detail}"
        if w:
            detail += f" ; differs at {w[0]}: read={w[1]:.12g} original={w[2]:.12g}"
        ob = Ob(name, REFUTED, out.backend, ms(), detail, signature, make_replay(kind, replay_spec, bool(w) or out.pair is None))
        return Result(ob, rendered=s, reads_as=show(canon(rd)))
    return Result(out_of_reach=(name, f"undecided by nf and SMT ({out.backend}: {out.detail[:160]}) | rendering: {s}"),
                  rendered=s)


def make_replay(kind: str, spec: dict, reproduced: bool = True) -> dict:
    script = (
        "import os, sys\n"
        "sys.path.insert(0, os.environ.get('VERIF_REPO', '/repo'))\n"
        f"sys.path.insert(0, {str(Path(__file__).resolve().parent.parent)!r})\n"
        "from vf import tv\n"
        f"tv.replay({kind!r}, {spec!r})\n"
    )
    return {"reproduced": reproduced, "script": script, "inputs": spec, "kind": kind}


def replay(kind: str, spec: dict):
    """Re-run one rendering against the real printer and reader; AssertionError if the failure shows."""
    global SHOW_MODE
    SHOW_MODE = kind
    expr = load_expr(spec)
    code_str, latex_str = printers()
    try:
        s = (code_str if kind == "code" else latex_str)(expr)
    except Exception as ex:
        raise AssertionError(f"{kind} printer raised {type(ex).__name__}: {ex} on {spec}")
    try:
        rd = read_code(s, expr) if kind == "code" else read_tex(s, expr)
    except Malformed as m:
        raise AssertionError(f"rendering {s!r} does not read back: {m}")
    pair, w = first_difference(rd, expr)
    if pair is None:
        print(f"rendering {s!r} reads back to the original value")
        return
    if w is None:
        # same rule as validate(): without a concrete point at which the values differ there is no verdict
        print(f"rendering {s!r} reads as {show(pair[0])}, original {show(pair[1])}: not proved equal, but no concrete point at which "
              "the values differ was found -- undecided, not a reproduction")
        return
    raise AssertionError(f"rendering {s!r} reads as {show(pair[0])}, original {show(pair[1])}; at {w[0]} "
                         f"read={w[1]:.12g} original={w[2]:.12g}")


# ======================================================================================= populations
def catalogue_files() -> list[Path]:
    out = []
    for sub in ("laws", "definitions", "conditions"):
        for p in sorted((PKG / sub).rglob("*.py")):
            if p.name.endswith("_test.py"):
                continue
            out.append(p)
    return out


def module_name(path: Path) -> str:
    rel = Path(path).relative_to(REPO).with_suffix("")
    parts = list(rel.parts)
    if parts[-1] == "__init__":
        parts = parts[:-1]
    return ".".join(parts)


def harvest_source(path: Path):
    """Documented members of one module in SOURCE form, through the repository's own docs pipeline
    (symplyphysics.docs.build._process_law: ast.parse -> patch_sympy_evaluate -> find_members_and_functions).
    Returns [(member_name, value, wants_code, wants_latex)] or None if the pipeline skips the file."""
    from symplyphysics.docs.patch import patch_sympy_evaluate
    from symplyphysics.docs.parse import find_members_and_functions, find_title_and_description, LawDirectiveType
    from sympy.core.parameters import global_parameters
    src = Path(path).read_text(encoding="utf-8")
    tree = ast.parse(src)
    doc = ast.get_docstring(tree)
    if doc is None or find_title_and_description(doc) is None:
        return None
    try:
        tree = patch_sympy_evaluate(tree)
        members, _functions = find_members_and_functions(tree)
    finally:
        global_parameters.evaluate = True
    out = []
    for m in members:
        if m.name.startswith("_"):
            continue
        kinds = {d.directive_type for d in m.directives}
        if not kinds:
            continue
        out.append((m.name, m.value, LawDirectiveType.SYMBOL in kinds, LawDirectiveType.LATEX in kinds))
    return out


def harvest_canonical(path: Path):
    """Public Relational attributes of the imported module (canonical, auto-evaluated form)."""
    import importlib
    mod = importlib.import_module(module_name(path))
    out = []
    for k, v in vars(mod).items():
        if k.startswith("_"):
            continue
        if isinstance(v, Relational):
            out.append((k, v))
    return out


def load_expr(spec: dict):
    pop = spec["population"]
    if pop == "tree":
        return build_tree(spec["tree"], spec.get("symset", "base"), spec.get("evaluated", True))
    path = REPO / spec["file"]
    if pop == "source":
        for nm, val, _c, _l in harvest_source(path) or []:
            if nm == spec["member"]:
                return val
        raise RuntimeError(f"member {spec['member']} not found in {path}")
    if pop == "canonical":
        for nm, val in harvest_canonical(path):
            if nm == spec["member"]:
                return val
        raise RuntimeError(f"member {spec['member']} not found in {path}")
    raise RuntimeError(f"unknown population {pop}")


_ELEMENTARY = (sp.exp, sp.log, sp.sin, sp.cos, sp.tan, sp.cot, sp.sec, sp.csc, sp.asin, sp.acos, sp.atan, sp.acot, sp.atan2,
               sp.sinh, sp.cosh, sp.tanh, sp.coth, sp.asinh, sp.acosh, sp.atanh, sp.Abs)


def in_stated_space(e) -> bool:
    """Is a canonical (imported) equation inside the expression space the property states for canonical forms:
    relations over symbols, numbers, rationals, pi/E/I, named quantity constants, + * ^ (roots, quotients) and
    elementary functions?  Anything else (derivatives, integrals, Piecewise, indexed sums, applied undefined functions,
    matrices, wrapper symbols, factorial, Bessel, Order, Min/Max, infinities ...) is outside it."""
    r = R()

    def ok(x):
        if isinstance(x, Relational):
            return ok(x.lhs) and ok(x.rhs)
        if not isinstance(x, sp.Expr) or isinstance(x, sp.MatrixBase):
            return False
        if isinstance(x, r["Symbolic"]) or isinstance(x, (sp.Idx, sp.Indexed, sp.IndexedBase)):
            return False
        if isinstance(x, sp.Symbol):
            return type(x) is sp.Symbol or type(x) is r["RSymbol"] or type(x) is sp.Dummy
        if isinstance(x, SymQuantity):
            return isinstance(x, r["DimensionSymbol"]) and "QTY" not in x.display_name
        if x.is_Number:
            return bool(x.is_Rational or x.is_Float)
        if x is sp.pi or x is sp.E or x is sp.I:
            return True
        if x.is_Atom:
            return False
        if x.is_Add or x.is_Mul or x.is_Pow or isinstance(x, _ELEMENTARY):
            return all(ok(a) for a in x.args)
        return False

    return ok(e)


def run_module(args) -> dict:
    """Worker: validate all renderings (of `kind`) of one catalogue module, both populations."""
    kind, pid, relpath = args[:3]
    fresh = len(args) > 3 and args[3] == "fresh"  # retry of the canonical form in a process with no import history
    path = REPO / relpath
    mod = module_name(path).removeprefix("symplyphysics.")
    res = {"obs": [], "oor": [], "programs": 0, "trivial": 0, "counts": {"source": 0, "canonical": 0}, "faults": [],
           "retry": None, "outside": {"validated": 0, "agree": 0, "disagree": [], "not_read": []}}

    def one(pop, member, value):
        name = f"{pid}/{mod}.{member}/{'source-form' if pop == 'source' else 'canonical-form'}"
        spec = {"population": pop, "file": relpath, "member": member}
        try:
            r = validate(kind, value, name, f"{mod}.{member}", spec)
        except Exception as ex:  # a reader/engine bug must not pass silently nor hide the other renderings
            res["faults"].append(f"{name}: engine error {type(ex).__name__}: {str(ex)[:200]}")
            return
        if pop == "canonical" and not in_stated_space(value):
            # outside the expression space the property states for canonical forms: an observation, not an obligation
            o = res["outside"]
            if r.ob is not None:
                o["validated"] += 1
                if r.ob.verdict == PROVED:
                    o["agree"] += 1
                else:
                    o["disagree"].append({"member": f"{mod}.{member}", "rendering": r.rendered,
                                          "reads_as": r.reads_as[:600], "backend": r.ob.backend})
            elif r.out_of_reach is not None:
                o["not_read"].append({"member": f"{mod}.{member}", "why": r.out_of_reach[1][:300]})
            return
        if r.ob is not None:
            res["obs"].append(r.ob)
            res["programs"] += 1
            res["counts"][pop] += 1
            res["trivial"] += 1 if r.trivial else 0
        if r.out_of_reach is not None:
            res["oor"].append(r.out_of_reach)

    try:
        canon_members = harvest_canonical(path)
    except Exception as ex:
        if fresh:
            res["oor"].append((f"{pid}/{mod}/canonical-form", f"module does not import (fresh interpreter): "
                                                              f"{type(ex).__name__}: {str(ex)[:160]}"))
        else:
            res["retry"] = relpath  # import failures can depend on the import history of the worker (symbol numbering)
        canon_members = []
    if fresh:
        for nm, val in canon_members:
            one("canonical", nm, val)
        return res
    try:
        members = harvest_source(path)
    except Exception as ex:
        res["faults"].append(f"docs pipeline failed on {relpath}: {type(ex).__name__}: {str(ex)[:200]}")
        members = None
    for nm, val, wants_code, wants_latex in members or []:
        if (kind == "code" and wants_code) or (kind == "latex" and wants_latex):
            one("source", nm, val)
    if members is not None:
        for nm, val in canon_members:
            one("canonical", nm, val)
    return res


# ----------------------------------------------------------------------------------------- bounded tree populations
# Symbol sets.  'base' is used by both checks.  Each check additionally gets a set whose names are unambiguous in ITS OWN
# naming but collide in the other one (a printer that identifies symbols by the wrong name conflates them):
#   samecode  (C18): two distinct library symbols with the SAME code name and different LaTeX names (one made by
#                    clone_as_symbol(display_latex=...)), and a clone_as_symbol(subscript=...) of the first;
#   samelatex (C17): two distinct library symbols with the SAME LaTeX name and different code names, and a subscript clone.
SYMSET_DOC = {
    "base": "x | y_1 (LaTeX \\varepsilon_\\text{r}) | t'",
    "samecode": "t (LaTeX t) | clone_as_symbol(t, display_latex=\"t'\") (code t, LaTeX t') | clone_as_symbol(t, subscript=\"0\")",
    "samelatex": "w (LaTeX \\omega) | omega (LaTeX \\omega) | clone_as_symbol(w, subscript=\"0\") (code w_0, LaTeX \\omega_{0})",
}
_symsets: dict = {}


def tree_symbols(symset: str = "base"):
    if symset not in _symsets:
        RS = R()["RSymbol"]
        from symplyphysics.core.symbols.symbols import clone_as_symbol
        if symset == "base":
            _symsets[symset] = [RS("x", display_latex="x"), RS("y_1", display_latex=r"\varepsilon_\text{r}"),
                                RS("t'", display_latex="t'")]
        elif symset == "samecode":
            t = RS("t", display_latex="t")
            _symsets[symset] = [t, clone_as_symbol(t, display_latex="t'"), clone_as_symbol(t, subscript="0")]
        elif symset == "samelatex":
            w = RS("w", display_latex=r"\omega")
            _symsets[symset] = [w, RS("omega", display_latex=r"\omega"), clone_as_symbol(w, subscript="0")]
        else:
            raise ValueError(symset)
    return _symsets[symset]


@dataclass(frozen=True)
class Grammar:
    name: str
    leaves: tuple
    unary: tuple
    binary: tuple
    evaluated: bool  # True: SymPy's evaluating constructors (canonical trees); False: evaluation disabled (source form)
    doc: str = ""


BINARY = ("add", "sub", "mul", "div", "pow")
G_CANON = Grammar(
    "canonical",
    (("s", 0), ("s", 1), ("s", 2), ("n", 2, 1), ("n", 3, 1), ("n", -1, 1), ("n", -2, 1), ("n", 1, 2), ("n", -2, 3)),
    ("sqrt", "exp", "log", "sin"), BINARY, True,
    "{3 symbols, 2, 3, -1, -2, 1/2, -2/3, + - * / ^, sqrt, exp, log, sin} built by SymPy's evaluating constructors")
G_SRC = Grammar(
    "source-form",
    (("s", 0), ("s", 1), ("s", 2), ("n", 2, 1), ("n", 3, 1), ("n", -1, 1), ("n", -2, 1), ("n", -3, 1), ("n", 1, 2),
     ("n", -2, 3)),
    ("neg", "sqrt", "sin"), BINARY, False,
    "{3 symbols, 2, 3, -1, -2, -3, 1/2, -2/3, unary minus, + - * / ^, sqrt, sin} built with evaluation DISABLED "
    "(sympy.evaluate(False), as the docs pipeline builds documented members); the original value is the tree rebuilt with "
    "evaluation on")
GRAMMARS = {g.name: g for g in (G_CANON, G_SRC)}

_A, _B, _C = ("s", 0), ("s", 1), ("s", 2)


def _n(p, q=1):
    return ("n", p, q)


def _neg(x):
    return ("neg", x)


# hand-written source-form shapes (sign parity, nested negatives, quotient / power bracketing); built unevaluated
HAND_SHAPES = [
    ("mul", _neg(_A), _neg(_B)),                                    # (-a)*(-b)
    ("Mul", _n(-2), _n(-3), _A),                                    # flat Mul(-2, -3, a)
    ("Mul", _n(-2), _n(-3), _n(-5), _A),                            # three negative numbers
    ("Mul", _n(-2), _A, _n(-3), _B),
    ("Mul", _n(-1), _n(-1), _A),
    ("mul", ("mul", _n(-2), _A), ("mul", _n(-3), _B)),              # nested negative products
    ("mul", ("mul", _n(-2), _A), ("mul", ("mul", _n(-3), _B), ("mul", _n(-1), _C))),
    ("mul", _n(-2), ("mul", _n(-3), ("mul", _n(-2), _A))),
    ("eq", _C, ("mul", _neg(_A), _neg(_B))),                        # F = -k*(-x)
    ("eq", _C, ("mul", ("mul", _n(-1), _A), ("mul", _n(-1), _B))),
    ("eq", _C, _neg(("mul", _A, _neg(_B)))),
    ("mul", _neg(_A), ("mul", _neg(_B), _neg(_C))),                 # three negated symbols
    ("mul", _n(-2), _neg(_A)),
    ("mul", _A, _n(-2)),
    ("mul", _A, _neg(_B)),
    ("mul", _n(-1, 2), _neg(_A)),
    ("mul", _n(-2, 3), ("mul", _n(-3), _A)),
    ("sub", _A, _neg(_B)),                                          # a - (-b)
    ("sub", _A, ("mul", _n(-2), _B)),
    ("sub", _A, _n(-2)),
    ("add", _A, _neg(_B)),
    ("add", _A, _n(-2)),
    _neg(_neg(_A)),                                                 # -(-a)
    _neg(_neg(_neg(_A))),
    _neg(("add", _A, _B)),
    _neg(("sub", _A, _B)),
    ("sub", _A, ("sub", _B, _C)),
    ("sub", _A, ("add", _B, _C)),
    ("pow", _neg(_A), _n(2)),                                       # (-a)^2
    ("pow", _neg(_A), _n(3)),
    _neg(("pow", _A, _n(2))),
    ("pow", _n(-2), _A),                                            # (-2)^x
    ("pow", _n(-2), _n(2)),
    ("pow", _n(-1, 2), _A),
    ("pow", _A, _neg(_B)),
    ("pow", _A, _n(-2)),
    ("pow", _A, _n(-1, 2)),
    ("pow", _A, ("add", _B, _C)),
    ("pow", _A, ("mul", _B, _C)),
    ("pow", _A, ("div", _B, _C)),
    ("pow", ("pow", _A, _B), _C),
    ("pow", _A, ("pow", _B, _C)),
    ("pow", ("mul", _A, _B), _C),
    ("pow", ("div", _A, _B), _C),
    ("pow", ("add", _A, _B), _n(2)),
    ("div", _n(1), _neg(_A)),                                       # 1/(-a)
    ("div", _neg(_A), _neg(_B)),                                    # -a/(-b)
    _neg(("div", _A, _neg(_B))),
    ("div", _A, _n(-2)),
    ("div", _n(-2), _A),
    ("div", _A, ("mul", _B, _C)),
    ("div", _A, ("div", _B, _C)),
    ("div", ("div", _A, _B), _C),
    ("mul", ("div", _A, _B), _C),
    ("mul", _A, ("div", _B, _C)),
    ("div", ("mul", _A, _B), ("mul", _n(-2), _C)),
    ("div", _A, ("add", _B, _C)),
    ("div", ("add", _A, _B), ("sub", _A, _B)),
    ("div", _A, ("pow", _B, _C)),
    ("div", _n(1), ("sqrt", _A)),
    ("add", _neg(_A), _B),                                          # sums with a negative leading term
    ("add", _n(-2), _A),
    ("Add", _neg(_A), _neg(_B), _C),
    ("Add", _n(-2), _neg(_A), ("mul", _n(-3), _B)),
    ("sub", _neg(_A), _B),
    ("sub", _n(-1), _A),
    ("add", ("mul", _n(-2), _A), ("mul", _n(-3), _B)),
    ("mul", _A, ("add", _neg(_B), _C)),
    ("mul", ("add", _neg(_A), _B), ("sub", _neg(_B), _C)),
    ("mul", _neg(("add", _A, _B)), _neg(_C)),
    ("sqrt", ("mul", _neg(_A), _neg(_B))),
    ("sin", ("mul", _n(-2), _neg(_A))),
    ("sin", _neg(_A)),
    ("mul", _n(2), ("sin", _neg(_A))),
    ("eq", ("sub", _B, _A), ("mul", _n(-2), ("sub", _A, _B))),
    ("eq", ("div", _A, _B), _neg(("div", _neg(_C), _B))),
    ("sub", _B, _A),                                                # the two look-alike symbols side by side
    ("div", _B, _A),
    ("add", ("mul", _n(2), _A), ("mul", _n(3), _B)),
    ("mul", _A, ("mul", _B, _C)),
    ("eq", _B, ("add", _A, _C)),
    # constant (symbol-free) sums as numerator, denominator, factor, base, subtrahend: a number-valued operand is not an atom
    ("div", ("add", _n(1), ("sqrt", _n(2))), _A),
    ("div", ("sub", ("sqrt", _n(5)), _n(1)), _n(2)),
    ("div", ("add", _n(1), ("sqrt", _n(5))), ("add", _A, _B)),
    ("div", _A, ("add", _n(1), ("sqrt", _n(2)))),
    ("mul", ("add", _n(1), ("sqrt", _n(2))), _A),
    ("mul", _A, ("sub", _n(1), ("exp", _n(-1)))),
    ("pow", ("add", _n(1), ("sqrt", _n(2))), _A),
    ("pow", _A, ("add", _n(1), ("sqrt", _n(2)))),
    ("sub", _A, ("add", _n(1), ("sqrt", _n(2)))),
    _neg(("add", _n(1), ("sqrt", _n(2)))),
    ("div", ("mul", ("add", _n(1), ("sqrt", _n(2))), _A), _B),
    # operator nodes as the base / exponent / operand of a power, quotient, product or difference: the bracketing of a
    # derivative or an integral inside an arithmetic node (the catalogue forms only have them at the top of a side).
    # No product with a derivative on the left and no nested derivative: how far a d/dx prefix reaches into a product is a
    # reading convention, not a bracketing obligation, and nested unevaluated derivatives print a count of "1 + 1".
    ("pow", ("ddx", ("pow", _A, _n(3))), _n(2)),
    ("pow", ("ddx", ("mul", _A, _B)), _C),
    ("pow", ("int01", ("pow", _A, _n(2))), _n(2)),
    ("pow", ("int01", ("add", _A, _B)), _n(-1, 2)),
    ("pow", _n(2), ("ddx", ("pow", _A, _n(2)))),
    ("div", _n(1), ("ddx", ("pow", _A, _n(2)))),
    ("div", _B, ("int01", ("add", _A, _B))),
    ("mul", _B, ("int01", ("add", _A, _B))),
    _neg(("ddx", ("add", _A, _B))),
    ("sub", _B, ("int01", ("sub", _A, _B))),
    ("sub", _B, ("ddx", ("sub", _A, _B))),
    ("sqrt", ("ddx", ("pow", _A, _n(2)))),
]


class _SkipTree(Exception):
    pass


class _TreeTimeout(BaseException):
    pass


TREE_TIME_LIMIT_S = 20


class _time_limit:
    def __init__(self, seconds):
        self.seconds = seconds
        self.armed = False
        self.old = None

    def __enter__(self):
        import signal

        def handler(signum, frame):
            raise _TreeTimeout()

        try:
            self.old = signal.signal(signal.SIGALRM, handler)
            signal.alarm(int(self.seconds))
            self.armed = True
        except ValueError:  # not in the main thread
            self.armed = False

    def __exit__(self, *exc):
        if self.armed:
            import signal
            signal.alarm(0)
            signal.signal(signal.SIGALRM, self.old)
        return False


def build_tree(spec, symset: str = "base", evaluated: bool = True):
    """Nested-tuple spec -> SymPy expression; evaluated=True: through SymPy's evaluating constructors (canonical tree),
    evaluated=False: with evaluation disabled, the way the docs pipeline builds a documented member (source form)."""
    with sp.evaluate(evaluated):
        return _build(spec, tree_symbols(symset), evaluated)


def _build(spec, syms, ev):
    spec = tuple(spec)
    h = spec[0]
    if h == "s":
        return syms[spec[1]]
    if h == "n":
        return sp.Rational(spec[1], spec[2])
    if h in ("Mul", "Add"):
        args = [_build(a, syms, ev) for a in spec[1:]]
        return (sp.Mul if h == "Mul" else sp.Add)(*args, evaluate=ev)
    a = _build(spec[1], syms, ev)
    if h == "neg":
        return -a
    if h == "sqrt":
        return sp.sqrt(a)
    if h == "exp":
        return sp.exp(a)
    if h == "log":
        return sp.log(a)
    if h == "sin":
        return sp.sin(a)
    if h == "ddx":  # operator nodes (hand shapes only): d/dx and a definite integral over the first symbol
        return sp.Derivative(a, syms[0])
    if h == "int01":
        return sp.Integral(a, (syms[0], 0, 1))
    b = _build(spec[2], syms, ev)
    if h == "eq":
        return sp.Eq(a, b, evaluate=False)
    if h == "add":
        return a + b
    if h == "sub":
        return a - b
    if h == "mul":
        return a * b
    if h == "div":
        return a / b
    if h == "pow":
        if ev and b.is_number and not a.free_symbols:
            big = False
            try:
                big = bool(abs(b) > 64) or bool(b.is_Rational and b.q > 64)
            except TypeError:
                big = True
            if big:
                raise _SkipTree("number tower")  # CPython cannot print / SymPy cannot finish such integers
        return a ** b
    raise ValueError(h)


def _finite(e) -> bool:
    return not (e.has(sp.zoo, sp.nan, sp.oo, -sp.oo) or any(abs(n.p).bit_length() > 2000 or n.q.bit_length() > 2000
                                                            for n in e.atoms(sp.Rational)))


def tree_count(g: Grammar, depth: int) -> int:
    c = len(g.leaves)
    for _ in range(depth - 1):
        c = len(g.leaves) + len(g.unary) * c + len(g.binary) * c * c
    return c


def tree_decode(g: Grammar, index: int, depth: int):
    """The index-th tree of depth <= depth in the fixed enumeration (leaves, unary, binary) of grammar g."""
    nl = len(g.leaves)
    if index < nl:
        return g.leaves[index]
    if depth <= 1:
        raise IndexError(index)
    c = tree_count(g, depth - 1)
    index -= nl
    if index < len(g.unary) * c:
        return (g.unary[index // c], tree_decode(g, index % c, depth - 1))
    index -= len(g.unary) * c
    op, rest = divmod(index, c * c)
    i, j = divmod(rest, c)
    return (g.binary[op], tree_decode(g, i, depth - 1), tree_decode(g, j, depth - 1))


def tree_indices(g: Grammar, depth: int, cap: int, seed: int, salt: int = 0) -> tuple[list[int], int]:
    """All trees of depth <= 2 plus a seeded sample of the deeper ones, `cap` in total.  For the source-form grammar the
    sample is drawn until `cap` trees WITHOUT number-only arithmetic are found (those are the obligations); at most cap/4
    trees with number-only arithmetic are kept as observations."""
    total = tree_count(g, depth)
    if total <= cap:
        return list(range(total)), total
    rng = random.Random(seed * 1000003 + depth * 101 + salt)
    small = tree_count(g, 2)
    picked = set(range(min(small, cap)))
    if g.evaluated:
        while len(picked) < cap:
            picked.add(rng.randrange(total))
        return sorted(picked), total
    observed: set = set()
    draws = 0
    while len(picked) < cap and draws < 60 * cap:
        draws += 1
        ix = rng.randrange(total)
        if ix in picked or ix in observed:
            continue
        if folds_in_python(tree_decode(g, ix, depth)):
            if len(observed) < cap // 4:
                observed.add(ix)
        else:
            picked.add(ix)
    return sorted(picked | observed), total


def _spec_size(spec) -> int:
    return 1 if spec[0] in ("s", "n") else 1 + sum(_spec_size(c) for c in spec[1:])


def _shrink_candidates(spec):
    """Strictly smaller specs: hoist a child, or replace a composite sub-tree by a leaf, or shrink inside a child."""
    if spec[0] in ("s", "n"):
        return
    for c in spec[1:]:
        yield c
    for k in range(1, len(spec)):
        c = spec[k]
        if c[0] not in ("s", "n"):
            for leaf in (("s", 0), ("s", 1), ("s", 2), ("n", 2, 1), ("n", -2, 1)):
                yield spec[:k] + (leaf,) + spec[k + 1:]
            for cc in _shrink_candidates(c):
                yield spec[:k] + (cc,) + spec[k + 1:]
    if spec[0] in ("Mul", "Add") and len(spec) > 3:
        for k in range(1, len(spec)):
            yield spec[:k] + spec[k + 1:]


def shrink_spec(spec, fails: Callable, budget: int = 120):
    """Greedy reduction of a failing tree to a locally minimal failing one (for grouping and readable replays)."""
    spec = tuple(spec)
    progress = True
    while progress and budget > 0:
        progress = False
        for cand in sorted(set(_shrink_candidates(spec)), key=lambda c: (_spec_size(c), repr(c))):
            budget -= 1
            if budget <= 0:
                break
            if fails(cand):
                spec, progress = cand, True
                break
    return spec


def skeleton(spec) -> str:
    """Shape of a tree with every leaf abstracted to '_' (used to report failing trees once per reduced shape)."""
    if spec[0] in ("s", "n"):
        return "_"
    return spec[0] + "(" + ",".join(skeleton(c) for c in spec[1:]) + ")"


_ARITH = ("neg", "add", "sub", "mul", "div", "pow", "Mul", "Add")


def folds_in_python(spec) -> bool:
    """Does the tree contain an arithmetic node all of whose operands are number leaves?  In a module source such a node is
    computed by Python (or by SymPy's number arithmetic) before any unevaluated SymPy node exists, so the shape cannot
    reach the printers from a documented member; such trees are validated as observations only."""
    if spec[0] in ("s", "n"):
        return False
    if spec[0] in _ARITH and all(c[0] == "n" for c in spec[1:]):
        return True
    return any(folds_in_python(c) for c in spec[1:])


SHRINK_CAP = 12  # failing trees reduced per chunk; further ones are counted only


_PROGRESS_FD = None
HARD_TREE_LIMIT_S = 60


def run_trees_guarded(args) -> dict:
    """run_trees in a forked child with a hard watchdog.  SIGALRM (the per-tree limit) cannot interrupt a single long C-level
    operation (a huge integer power inside SymPy / CPython); a child that starts no new tree for HARD_TREE_LIMIT_S seconds is
    killed, the tree it was working on is recorded as out of reach (not a verdict) and the chunk is redone without it."""
    import pickle
    import select
    import signal
    global _PROGRESS_FD
    kind, pid_, gname, symset, depth, items = args
    items = list(items)
    culprits = []
    while True:
        todo = [i for i in items if i not in culprits]
        rr, rw = os.pipe()
        pr, pw = os.pipe()
        child = os.fork()
        if child == 0:
            try:
                os.close(rr)
                os.close(pr)
                die_with_parent()
                _PROGRESS_FD = pw
                out = run_trees((kind, pid_, gname, symset, depth, todo))
                data = pickle.dumps(out)
                with os.fdopen(rw, "wb") as fh:
                    fh.write(data)
            finally:
                os._exit(0)
        os.close(rw)
        os.close(pw)
        buf, last, current, done = b"", time.time(), None, False
        pbuf = b""
        while True:
            ready, _, _ = select.select([rr, pr], [], [], 1.0)
            if pr in ready:
                chunk = os.read(pr, 65536)
                if chunk:
                    pbuf += chunk
                    lines = pbuf.split(b"\n")
                    pbuf = lines[-1]
                    if len(lines) > 1:
                        current = int(lines[-2])
                        last = time.time()
            if rr in ready:
                chunk = os.read(rr, 1 << 20)
                if chunk:
                    buf += chunk
                    last = time.time()
                else:
                    done = True
            if done:
                break
            if time.time() - last > HARD_TREE_LIMIT_S:
                break
        for fd in (rr, pr):
            os.close(fd)
        if done and buf:
            os.waitpid(child, 0)
            res = pickle.loads(buf)
            for ix in culprits:
                name = f"{pid_}/tree/{gname}:{symset}/" + (f"d{depth}#{ix}" if GRAMMARS.get(gname) else f"shape#{ix}")
                res["oor"].append((name, f"hard time limit of {HARD_TREE_LIMIT_S}s exceeded in an uninterruptible computation (not a verdict)"))
            return res
        try:
            os.kill(child, signal.SIGKILL)
        except ProcessLookupError:
            pass
        os.waitpid(child, 0)
        if current is None or current in culprits:
            # the child died or hung before its first heartbeat: give the whole chunk up (reported, never a verdict)
            return {"group": gname, "symset": symset, "count": 0, "failures": [], "skipped": 0, "trivial": 0, "backends": {}, "dups": 0,
                    "observed": {"validated": 0, "agree": 0, "disagree": []},
                    "oor": [(f"{pid_}/tree/{gname}:{symset}/chunk@{items[0] if items else 0}", "worker died without a result (not a verdict)")]}
        culprits.append(current)


def run_trees(args) -> dict:
    """Worker: validate a chunk of one bounded tree population.
    args = (kind, pid, grammar name | 'hand', symset, depth, items); items are enumeration indices (or shape numbers)."""
    kind, pid, gname, symset, depth, items = args
    res = {"group": gname, "symset": symset, "count": 0, "failures": [], "oor": [], "skipped": 0, "trivial": 0,
           "backends": {}, "dups": 0, "observed": {"validated": 0, "agree": 0, "disagree": []}}
    seen = set()
    g = GRAMMARS.get(gname)
    evaluated = g.evaluated if g else False
    for ix in items:
        if _PROGRESS_FD is not None:
            os.write(_PROGRESS_FD, f"{ix}\n".encode())  # heartbeat for the watchdog of run_trees_guarded
        spec = HAND_SHAPES[ix] if g is None else tree_decode(g, ix, depth)
        try:
            value = build_tree(spec, symset, True)  # the mathematical value (guards against non-finite / huge numbers)
            if not _finite(value):
                raise _SkipTree("non-finite")
            e = value if evaluated else build_tree(spec, symset, False)
        except Exception:
            res["skipped"] += 1
            continue
        if e in seen:
            res["dups"] += 1
            continue
        seen.add(e)
        name = f"{pid}/tree/{gname}:{symset}/" + (f"d{depth}#{ix}" if g else f"shape#{ix}")
        rspec = {"population": "tree", "tree": spec, "symset": symset, "evaluated": evaluated}
        try:
            with _time_limit(TREE_TIME_LIMIT_S):
                r = validate(kind, e, name, f"tree:{gname}:{symset}:{spec!r}", rspec)
        except _TreeTimeout:
            res["oor"].append((name, f"time limit of {TREE_TIME_LIMIT_S}s for one tree exceeded (not a verdict)"))
            continue
        except Exception as ex:
            res["oor"].append((name, f"engine error {type(ex).__name__}: {str(ex)[:200]}"))
            res["errors"] = res.get("errors", 0) + 1
            continue
        if r.out_of_reach is not None:
            res["oor"].append(r.out_of_reach)
            continue
        if not evaluated and folds_in_python(spec):
            o = res["observed"]
            o["validated"] += 1
            if r.ob.verdict == PROVED:
                o["agree"] += 1
            elif len(o["disagree"]) < 6:
                o["disagree"].append({"tree": name, "rendering": r.rendered, "reads_as": r.reads_as[:300]})
            continue
        res["count"] += 1
        res["trivial"] += 1 if r.trivial else 0
        res["backends"][r.ob.backend] = res["backends"].get(r.ob.backend, 0) + 1
        if r.ob.verdict != PROVED:
            if len(res["failures"]) >= SHRINK_CAP:
                res["unreduced"] = res.get("unreduced", 0) + 1
                continue
            last: dict = {}

            def fails(cand):
                try:
                    if not evaluated and folds_in_python(cand):
                        return False
                    v = build_tree(cand, symset, True)
                    if not _finite(v):
                        return False
                    ce = v if evaluated else build_tree(cand, symset, False)
                    rr = validate(kind, ce, name, "", {"population": "tree", "tree": cand, "symset": symset,
                                                        "evaluated": evaluated})
                except Exception:
                    return False
                if rr.ob is not None and rr.ob.verdict == REFUTED:
                    last[cand] = rr
                    return True
                return False

            small = shrink_spec(spec, fails)
            rr = last.get(small, r)
            sk = skeleton(small)
            res["failures"].append({"skeleton": sk, "example": name, "spec": small, "detail": rr.ob.detail,
                                    "replay": rr.ob.replay, "symset": symset})
    return res


def _fresh_canonical(kind, pid, relpaths):
    """Canonical forms of modules whose import failed inside a pool worker, each retried in a fresh interpreter."""
    import pickle
    import subprocess
    import sys
    procs = []
    for rp in relpaths:
        code = ("import sys, pickle; from vf import tv; "
                f"r = tv.run_module(({kind!r}, {pid!r}, {rp!r}, 'fresh')); sys.stdout.buffer.write(pickle.dumps(r))")
        procs.append((rp, subprocess.Popen([sys.executable, "-c", code], stdout=subprocess.PIPE, stderr=subprocess.PIPE,
                                           cwd=str(Path(__file__).resolve().parent.parent))))
    out = []
    for rp, pr in procs:
        so, se = pr.communicate(timeout=600)
        try:
            out.append(pickle.loads(so))
        except Exception:
            out.append({"obs": [], "oor": [], "programs": 0, "trivial": 0, "counts": {"source": 0, "canonical": 0},
                        "faults": [f"fresh-interpreter retry of {rp} failed: {se.decode(errors='replace')[-300:]}"]})
    return out


# ----------------------------------------------------------------------------------------- driver shared by C17 / C18
def run_property(report, pid: str, kind: str):
    import multiprocessing as mp
    from .core import seed as core_seed
    tier = report.tier
    files = [str(p.relative_to(REPO)) for p in catalogue_files()]
    nproc = max(1, min(16, os.cpu_count() or 1, int(os.environ.get("VERIF_PROCS", "16"))))
    depth = 3 if tier == "quick" else 4
    quick = tier == "quick"
    alt = "samecode" if kind == "latex" else "samelatex"  # names unambiguous in this check's own naming
    plan = [  # (grammar, symset, sample size)
        (G_CANON, "base", 20000 if quick else 100000),
        (G_CANON, alt, 5000 if quick else 20000),
        (G_SRC, "base", 20000 if quick else 60000),
        (G_SRC, alt, 5000 if quick else 15000),
    ]
    tree_tasks, plan_info = [], {}
    for k, (g, symset, cap) in enumerate(plan):
        indices, total = tree_indices(g, depth, cap, core_seed(), salt=k)
        plan_info[(g.name, symset)] = (len(indices), total)
        chunk = max(50, len(indices) // (nproc * 4))
        tree_tasks += [(kind, pid, g.name, symset, depth, indices[i:i + chunk]) for i in range(0, len(indices), chunk)]
    for symset in ("base", alt):
        tree_tasks.append((kind, pid, "hand", symset, 0, list(range(len(HAND_SHAPES)))))
    ctx = mp.get_context("fork")
    with ctx.Pool(nproc, initializer=die_with_parent) as pool:
        mod_async = pool.map_async(run_module, [(kind, pid, f) for f in files], chunksize=4)
        tree_async = pool.map_async(run_trees_guarded, tree_tasks, chunksize=1)
        mod_results = mod_async.get()
        tree_results = tree_async.get()
    retry = sorted(r["retry"] for r in mod_results if r.get("retry"))
    if retry:
        mod_results = list(mod_results) + _fresh_canonical(kind, pid, retry)
    counts = {"source": 0, "canonical": 0}
    trivial = 0
    outside = {"validated": 0, "agree": 0, "disagree": [], "not_read": []}
    for r in mod_results:
        o = r.get("outside")
        if o:
            outside["validated"] += o["validated"]
            outside["agree"] += o["agree"]
            outside["disagree"] += o["disagree"]
            outside["not_read"] += o["not_read"]
        report.extend(r["obs"])
        report.programs += r["programs"]
        trivial += r["trivial"]
        for k in counts:
            counts[k] += r["counts"][k]
        for nm, why in r["oor"]:
            report.add_out_of_reach(nm, why)
        for f in r["faults"]:
            report.fault(f)
    toor = [o for r in tree_results for o in r["oor"]]
    tree_pop = {}
    for gname, what in (("canonical", G_CANON.doc), ("source-form", G_SRC.doc),
                        ("hand", "hand-written source-form shapes built with evaluation disabled: products with 2 and 3 "
                                 "negative numeric factors, nested negative products, a - (-b), -(-a), (-a)^2, (-2)^x, "
                                 "1/(-a), -a/(-b), sums with negative leading terms, quotient/power nestings, and a derivative or a "
                                 "definite integral as the base, exponent or operand of a power, root, quotient or "
                                 "difference (operator nodes lie beyond the stated expression space; the printers' "
                                 "bracketing contract covers them)")):
        rs = [r for r in tree_results if r["group"] == gname]
        cnt = sum(r["count"] for r in rs)
        # failing trees are reduced to locally minimal failing shapes and reported once per shape
        groups: dict = {}
        for r in rs:
            for f in r["failures"]:
                gkey = f["skeleton"]
                if gkey not in groups:
                    groups[gkey] = dict(f, n=0)
                groups[gkey]["n"] += 1
        unreduced = sum(r.get("unreduced", 0) for r in rs)
        fails = []
        for sk, f in sorted(groups.items()):
            fails.append({"name": f"{pid}/tree/{gname}/{sk}", "signature": sk,
                          "detail": f"{f['n']} failing trees reduce to the shape {sk} (e.g. {f['example']}, symbol set "
                                    f"{f['symset']}): {f['detail']}",
                          "replay": f["replay"]})
        if unreduced and fails:
            fails[0]["detail"] += f" ; [{unreduced} further failing {gname} trees were counted but not reduced]"
        tree_failing = sum(f["n"] for f in groups.values()) + unreduced
        back: dict = {}
        for r in rs:
            for k, v in r["backends"].items():
                back[k] = back.get(k, 0) + v
        if gname == "hand":
            bound = f"{len(HAND_SHAPES)} fixed shapes x symbol sets base, {alt}"
            title = "source-form shapes: " + what
        else:
            parts = [f"{n} of {tot} trees over symbol set '{ss}'" for (gn, ss), (n, tot) in plan_info.items() if gn == gname]
            bound = (f"depth <= {depth}; " + "; ".join(parts) + f" (all of depth <= 2, the rest sampled with "
                     f"VERIF_SEED={core_seed()})")
            title = f"general {gname} trees over " + what
        report.add_bounded(
            title + f"; symbol sets: base = {SYMSET_DOC['base']}; {alt} = {SYMSET_DOC[alt]}; obligation "
            f"read({kind}_str(e)) == e for all values, per tree", bound, cnt, not fails, fails)
        tree_pop[gname] = {"validated": cnt, "skipped_non_finite": sum(r["skipped"] for r in rs),
                           "duplicates_in_chunk": sum(r["dups"] for r in rs),
                           "out_of_reach": sum(len(r["oor"]) for r in rs),
                           "identical_normal_form": sum(r["trivial"] for r in rs), "backends": back,
                           "failing_trees": tree_failing, "failing_shapes": sorted(groups),
                           "number_only_arithmetic_observed": {
                               "note": "source-form trees containing an arithmetic node over number leaves only (Python / "
                                       "SymPy number arithmetic folds it before a documented member exists): validated, "
                                       "not obligations",
                               "validated": sum(r["observed"]["validated"] for r in rs),
                               "agree": sum(r["observed"]["agree"] for r in rs),
                               "disagree_examples": [d for r in rs for d in r["observed"]["disagree"]][:12]},
                           "by_symset": {ss: sum(r["count"] for r in rs if r["symset"] == ss) for ss in ("base", alt)}}
    for nm, why in toor[:40]:
        report.add_out_of_reach(nm, why)
    nerr = sum(r.get("errors", 0) for r in tree_results)
    if nerr:
        report.fault(f"{nerr} tree renderings raised an engine error (first: {[w for _, w in toor if w.startswith('engine error')][:1]})")
    report.extra["populations"] = {
        "catalogue_source_form_renderings": counts["source"],
        "catalogue_canonical_form_renderings": counts["canonical"],
        "catalogue_identical_normal_form": trivial,
        "trees": tree_pop,
        "tree_out_of_reach": len(toor),
        "catalogue_out_of_reach": len(report.out_of_reach) - min(len(toor), 40),
    }
    outside["disagree"].sort(key=lambda d: d["member"])
    outside["not_read"].sort(key=lambda d: d["member"])
    outside["note"] = ("canonical (imported) forms containing nodes outside the expression space the property states for "
                       "canonical forms (derivatives, integrals, Piecewise, indexed sums/products, applied undefined "
                       "functions, matrices, wrapper symbols, factorial, Bessel/Hermite, Order, infinities ...): rendered and "
                       "validated like the others, reported here as observations, never as obligations")
    report.extra["canonical_outside_stated_space"] = outside
    report.extra["exhaustive"] = False
    report.extra["modules_visited"] = len(files)
    for f in ("printer_code.py" if kind == "code" else "printer_latex.py", "miscellaneous.py", "patch.py", "parse.py"):
        p = PKG / "docs" / f
        report.function(f"symplyphysics.docs.{f[:-3]}", p, "code under validation" if "printer" in f or "misc" in f
                        else "source-form pipeline")
