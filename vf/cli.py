"""CLI: ./check <ID> [--tier quick|thorough] [--replay file]"""
import argparse
import importlib
import os
import sys
import traceback


def main(argv=None) -> int:
    ap = argparse.ArgumentParser()
    ap.add_argument("pid")
    ap.add_argument("--tier", default=os.environ.get("VERIF_TIER", "quick"), choices=["quick", "thorough"])
    ap.add_argument("--replay")
    ap.add_argument("--list", action="store_true", help="print every obligation with its verdict and back end")
    a = ap.parse_args(argv)
    os.environ["VERIF_TIER"] = a.tier
    repo = os.environ.get("VERIF_REPO", "/repo")
    # the real package is imported from VERIF_REPO (default /repo; only self-tests on scratch copies override it)
    sys.path.insert(0, repo)
    os.environ["PYTHONPATH"] = repo + os.pathsep + os.environ.get("PYTHONPATH", "")
    from . import core
    if a.replay:
        return core.run_replay_file(a.replay)
    pid = a.pid.upper()
    try:
        mod = importlib.import_module(f"vf.props.{pid.lower()}")
    except ModuleNotFoundError as e:
        print(f"FAULT: no check for {pid}: {e}")
        return 3
    report = core.Report(pid, mod.LEVEL, f"./check {pid} --tier {a.tier}", a.tier)
    try:
        mod.run(report)
    except Exception:
        report.fault("checker crashed: " + traceback.format_exc()[-1500:])
    if a.list:
        for o in report.obs:
            print(f"{o.verdict:9s} {o.backend or '?':12s} {o.ms:8.1f}ms {o.name}")
    return report.finish()


if __name__ == "__main__":
    sys.exit(main())
