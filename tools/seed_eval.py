#!/usr/bin/env python3
"""Confirm a seeded property-breaking change in a scratch worktree and run the checks against it.

usage: tools/seed_eval.py <src dir with patch.diff, demo.py, meta.json> <seed id> <checks comma sep> [--skip-suite]
Steps (all in a scratch worktree under /tmp/vfm, removed afterwards; /repo is never modified):
  1. demo on the clean tree must pass (exit 0);  2. apply patch;  3. demo must fail;  4. full test suite must pass;
  5. run each check with VERIF_REPO=<scratch> and record exit code / violations;  6. store everything in /verif/seeded/<id>/.
"""
import json, os, pathlib, shutil, subprocess, sys, tempfile, time

src, sid, checks = pathlib.Path(sys.argv[1]).resolve(), sys.argv[2], sys.argv[3].split(",")
skip_suite = "--skip-suite" in sys.argv
os.makedirs("/tmp/vfm", exist_ok=True)
d = tempfile.mkdtemp(prefix="s", dir="/tmp/vfm"); os.rmdir(d)
subprocess.check_call(["git", "-C", "/repo", "worktree", "add", "-q", "--detach", d])
ran = []
def run(cmd, **kw):
    env = dict(os.environ, PYTHONPATH=d, **kw.pop("env", {}))
    r = subprocess.run(cmd, cwd=kw.pop("cwd", d), env=env, capture_output=True, text=True, **kw)
    return r
try:
    demo = src / "demo.py"
    is_pytest = "def test_" in demo.read_text()
    demo_cmd = ["/venv/bin/python", "-m", "pytest", "-q", "-p", "no:cacheprovider", str(demo)] if is_pytest else ["/venv/bin/python", str(demo)]
    r0 = run(demo_cmd); ran.append(f"demo on clean tree: exit {r0.returncode}")
    subprocess.check_call(["git", "-C", d, "apply", str(src / "patch.diff")])
    r1 = run(demo_cmd); ran.append(f"demo with change: exit {r1.returncode}")
    suite = "skipped"
    if not skip_suite:
        rs = run(["/venv/bin/python", "-m", "pytest", "-q", "-p", "no:cacheprovider", "-n", "8", "-x"])
        suite = rs.stdout.strip().splitlines()[-1] if rs.stdout.strip() else rs.stderr[-200:]
        ran.append(f"full test suite with change: {suite}")
    results = {}
    for c in checks:
        t0 = time.time()
        rc = subprocess.run(["/verif/check", c, "--tier", "quick"], env=dict(os.environ, VERIF_REPO=d), capture_output=True, text=True)
        out = rc.stdout.splitlines()
        viol = [l for l in out if l.startswith("VIOLATION")]
        first = next((l.strip() for l in out if "refuted obligation" in l), "")
        results[c] = {"exit": rc.returncode, "violations": len(viol), "reproduced": sum(1 for l in viol if not l.endswith("no-failing-input-found")),
                      "first_refuted": first[:400], "wall_s": round(time.time() - t0, 1)}
        ran.append(f"./check {c} with change (VERIF_REPO=scratch): exit {rc.returncode}, {len(viol)} VIOLATION lines")
    ok = r0.returncode == 0 and r1.returncode != 0 and (skip_suite or " passed" in suite and "failed" not in suite)
    meta = json.loads((src / "meta.json").read_text()) if (src / "meta.json").exists() else {}
    if skip_suite:  # keep the record of an earlier full-suite confirmation of this same patch
        ran += [l + " (earlier run)" for l in meta.get("confirmation", []) if l.startswith("full test suite") and "(earlier run)" not in l] + \
               [l for l in meta.get("confirmation", []) if l.startswith("full test suite") and "(earlier run)" in l][:1]
        ok = ok and any(" passed" in l and "failed" not in l for l in ran if l.startswith("full test suite"))
    meta.update({"seed_id": sid, "confirmed": ok, "confirmation": ran, "checks": results,
                 "detected_by": [c for c, r in results.items() if r["exit"] == 1]})
    out = pathlib.Path("/verif/seeded") / sid
    out.mkdir(parents=True, exist_ok=True)
    if out.resolve() != src:
        shutil.copy(src / "patch.diff", out / "patch.diff"); shutil.copy(demo, out / "demo.py")
    (out / "meta.json").write_text(json.dumps(meta, indent=1) + "\n")
    print(json.dumps({"seed": sid, "confirmed": ok, "suite": suite, "demo_clean": r0.returncode, "demo_changed": r1.returncode, "checks": results}, indent=1))
finally:
    subprocess.call(["git", "-C", "/repo", "worktree", "remove", "--force", d]); shutil.rmtree(d, ignore_errors=True)
