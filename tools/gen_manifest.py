#!/usr/bin/env python3
"""Regenerates /verif/MANIFEST.json from the table below and validates it against the schema."""
import json, pathlib, sys
V = pathlib.Path(__file__).resolve().parent.parent
TB = "CPython 3.12, SymPy 1.14 (auto-evaluation, diff, subs, integrate, solve), z3 5.1 / cvc5 1.4, sympy.polys normal forms"
CHECKS = {
 "C10": dict(cat="proof", eng="symx", ref="DESIGN.md 5/C10",
   text="Contract clauses (the listed algebraic laws and refusals) on the real arithmetics.py functions, executed on fully generic real symbols and discharged as polynomial/algebraic identities for ALL component values by nf/z3; operand lengths 0..3 and coordinate-system combinations enumerated completely (the property's own bounds). The for-all-values domain is the reals; non-real components are covered by ground instances with complex numbers only. Every shape runs under a wall-clock limit (a shape that does not finish is undecided).",
   note="Trusted: " + TB + "; control flow of the functions does not depend on component values (no Relational is coerced to bool).",
   tech="contract clauses over generic-execution summaries of the real functions, nf normal form + z3 NRA"),
 "C12": dict(cat="proof", eng="symx", ref="DESIGN.md 5/C12",
   text="curl grad = 0, div curl = 0, zero-padding, Cartesian definitions, and curvilinear = Cartesian-in-local-frame, as postconditions of the real gradient/divergence/curl operators on undefined smooth functions of the coordinates; identities of rational functions modulo sin^2+cos^2=1 proved for all fields and all points of the domain; also for fields whose components depend on subsets of the coordinates or vanish.",
   note="Trusted: " + TB + "; SymPy chain rule; local frames of the cylindrical/spherical systems written in the check from the definitions.",
   tech="generic execution on undefined functions + normal form modulo trigonometric relations"),
 "C14": dict(cat="proof", eng="symx", ref="DESIGN.md 5/C14",
   text="Constructor contracts sem(result) = op_R3(sem(args)) for VectorNorm/Dot/Cross/MixedProduct and derivative contracts, under an R^3 semantics, proved for all real assignments on most-general operand templates and ALL relative id() orders of the symbols; sort_with_sign exhaustively over weak orderings of <= 4 keys. Term count per operand and nesting depth are bounded by the templates (stated).",
   note="Trusted: " + TB + "; the R^3 semantics in vf/vecsem.py. Unbounded term counts / nesting are out of reach (reported).",
   tech="constructor postconditions against an R^3 semantics on most-general templates, nf + z3"),
 "C15": dict(cat="proof", eng="symx", ref="DESIGN.md 5/C15",
   text="Round trips, rotation/inverse/composition of base-vector maps, agreement with the Cartesian position map and local frames, point/vector conversion, Lame coefficients: postconditions of the real conversion tables for all 6 ordered pairs and 6 triples, for all points of each (open) domain, discharged by z3 NRA with an instantiated inverse-trig axiom kit; z-axis points between the two curvilinear systems as ground instances.",
   note="Trusted: " + TB + "; assumed axioms A1-A4 of vf/axioms.py (atan2/acos characterisation, injectivity of angle->(sin,cos), sign of sin on (0,pi)).",
   tech="generic execution + z3 nonlinear real arithmetic with instantiated atan2 axioms"),
}
NA = {
 "C03": "history enters only through generated names; the property is a parametricity statement about SymPy's name-ordered canonical forms, simplify heuristics and solve() root order, which no contract on this repository's functions can express or decide (DESIGN.md section 6)",
}
PENDING = {}  # property -> reason it is not claimed yet

def main():
    props = [json.loads(l)["id"] for l in (V / "properties.jsonl").read_text().splitlines() if l.strip()]
    extra = json.loads((V / "tools/manifest_extra.json").read_text()) if (V / "tools/manifest_extra.json").exists() else {}
    checks_tbl = dict(CHECKS); checks_tbl.update(extra.get("checks", {}))
    na = dict(NA); na.update(extra.get("not_applicable", {}))
    checks = []
    for pid in props:
        if pid not in checks_tbl:
            continue
        c = checks_tbl[pid]
        checks.append({
            "property_id": pid,
            "quick_cmd": f"./check {pid} --tier quick",
            "thorough_cmd": f"./check {pid} --tier thorough",
            "evidence_file": f"evidence/{pid}.json",
            "replay_cmd_template": f"./check {pid} --replay {{path}}",
            "engine": c["eng"],
            "level_claimed": {"category": c["cat"], "text": c["text"], "design_ref": c["ref"]},
            "level_note": c["note"],
            "technique": c["tech"],
        })
    not_app = [{"property_id": p, "reason": r} for p, r in na.items()]
    for pid in props:
        if pid not in checks_tbl and pid not in na:
            not_app.append({"property_id": pid, "reason": "check not built yet in this round (planned: see DESIGN.md section 5); not claimed"})
    m = {
        "version": 1,
        "setup_cmd": "./setup.sh",
        "hooks": {"guard": "SYMPLYPHYSICS_VERIF",
                  "enable": "no source hooks: contracts are sidecars under /verif/vf and decorator specifications are recovered by closure introspection",
                  "baseline_off_cmd": "cd /repo && /venv/bin/python -m pytest -ra -q -p no:cacheprovider --timeout=900 --continue-on-collection-errors",
                  "source_commits": [], "add_only": True},
        "engines": [
            {"name": "symx", "path": "vf/symx.py", "serves_properties": [p for p in props if checks_tbl.get(p, {}).get("eng") == "symx"],
             "kind_free_text": "contract clauses over strongest postconditions obtained by running the real function on generic symbols; discharged by nf (polynomial normal form) / z3 / cvc5"},
            {"name": "pyvc", "path": "vf/pyvc.py", "serves_properties": [p for p in props if checks_tbl.get(p, {}).get("eng") == "pyvc"],
             "kind_free_text": "verification conditions generated from the Python AST of the real functions against sidecar contracts; z3/cvc5"},
        ] + extra.get("engines", []),
        "checks": checks,
        "notes": "Exit codes: 0 held, 1 violation (VIOLATION line + replay), 2 undecided, 3 checker fault. known_findings.json lists recorded findings and fixed entries.",
        "not_applicable": not_app,
    }
    import jsonschema
    jsonschema.validate(m, json.loads(pathlib.Path("/root/.vp/MANIFEST.schema.json").read_text()))
    (V / "MANIFEST.json").write_text(json.dumps(m, indent=1) + "\n")
    print("MANIFEST.json written:", [c["property_id"] for c in checks], "not claimed:", [n["property_id"] for n in not_app])

main()
