#!/usr/bin/env python3
"""Markdown table of the seeded changes kept under /verif/seeded (for DESIGN.md section 10.4)."""
import json, pathlib
rows = []
for d in sorted(pathlib.Path("/verif/seeded").iterdir()):
    m = json.loads((d / "meta.json").read_text())
    det = ", ".join(f"{c} (exit {r['exit']}, {r['violations']} VIOLATION, {r['reproduced']} replayed)" for c, r in m.get("checks", {}).items())
    first = next((r["first_refuted"] for r in m.get("checks", {}).values() if r.get("first_refuted")), "")
    first = first.replace("refuted obligation: ", "").split(" [")[0][:110]
    rows.append(f"| {m.get('seed_id', d.name)} | {m.get('summary', '')[:150]} | {m.get('needs_to_manifest', '')[:130]} | {det} | `{first}` |")
print("| seed | change | needs to manifest | checks | first failed obligation |\n|---|---|---|---|---|")
print("\n".join(rows))
