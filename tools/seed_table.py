#!/usr/bin/env python3
"""Markdown table of the seeded changes kept under /verif/seeded.

  seed_table.py            print the table
  seed_table.py --design   rewrite the block between the seeded-table markers in /verif/DESIGN.md (section 10.4)"""
import json
import pathlib
import re
import sys

ROOT = pathlib.Path(__file__).resolve().parents[1]


def table():
    rows = []
    for d in sorted((ROOT / "seeded").iterdir()):
        m = json.loads((d / "meta.json").read_text())
        det = ", ".join(f"{c}: exit {r['exit']}, {r['violations']} violation(s), {r['reproduced']} replayed on the real code" for c, r in m.get("checks", {}).items())
        first = next((r["first_refuted"] for r in m.get("checks", {}).values() if r.get("first_refuted")), "")
        first = first.replace("refuted obligation: ", "").split(" [")[0][:120]
        summ = re.sub(r"\s+", " ", m.get("summary", "")).replace("|", "/")[:170]
        rows.append(f"| {m.get('seed_id', d.name)} | {summ} | {det} | `{first}` |")
    return "| seed | change (sub-agent's own summary, truncated) | check result | first failed obligation |\n|---|---|---|---|\n" + "\n".join(rows)


if __name__ == "__main__":
    t = table()
    if "--design" in sys.argv:
        p = ROOT / "DESIGN.md"
        s = p.read_text()
        b, e = "<!-- seeded-table:begin -->", "<!-- seeded-table:end -->"
        assert b in s and e in s, "markers missing in DESIGN.md"
        s = s[:s.index(b) + len(b)] + "\n" + t + "\n" + s[s.index(e):]
        p.write_text(s)
        print("DESIGN.md table rewritten:", t.count("\n") - 1, "rows")
    else:
        print(t)
