#!/usr/bin/env python3
"""Self-test helper: apply one textual mutation to a scratch worktree of /repo, run checks against it, clean up.

usage: tools/mutate.py <check-ids comma sep> <relative file> <old> <new> [--count N] [--keep]
       tools/mutate.py <check-ids> --patch file.diff
Prints the last lines of each check and its exit code.  The scratch tree lives under /tmp/vfm and is removed.
"""
import argparse, os, subprocess, sys, tempfile, shutil, pathlib

ap = argparse.ArgumentParser()
ap.add_argument("checks")
ap.add_argument("file", nargs="?")
ap.add_argument("old", nargs="?")
ap.add_argument("new", nargs="?")
ap.add_argument("--patch")
ap.add_argument("--count", type=int, default=1)
ap.add_argument("--tier", default="quick")
ap.add_argument("--lines", type=int, default=6)
a = ap.parse_args()
os.makedirs("/tmp/vfm", exist_ok=True)
d = tempfile.mkdtemp(prefix="m", dir="/tmp/vfm")
os.rmdir(d)
subprocess.check_call(["git", "-C", "/repo", "worktree", "add", "-q", "--detach", d])
rc_all = 0
try:
    if a.patch:
        subprocess.check_call(["git", "-C", d, "apply", os.path.abspath(a.patch)])
    else:
        p = pathlib.Path(d) / a.file
        s = p.read_text()
        n = s.count(a.old)
        if n != a.count:
            print(f"mutation site count {n} != {a.count}"); sys.exit(9)
        p.write_text(s.replace(a.old, a.new))
    for c in a.checks.split(","):
        env = dict(os.environ, VERIF_REPO=d)
        r = subprocess.run(["/verif/check", c, "--tier", a.tier], env=env, capture_output=True, text=True)
        out = (r.stdout + r.stderr).strip().splitlines()
        viol = [l for l in out if l.startswith("VIOLATION")]
        print(f"== {c}: exit={r.returncode} violations={len(viol)}")
        for l in out[-a.lines:]:
            print("   ", l[:300])
        rc_all = max(rc_all, r.returncode)
finally:
    subprocess.call(["git", "-C", "/repo", "worktree", "remove", "--force", d])
    shutil.rmtree(d, ignore_errors=True)
sys.exit(0)
