#!/usr/bin/env python3
"""Prepare the brief and the scratch worktree for one seeding sub-agent.

usage: seed_prompt.py <PROPERTY-ID> <TAG>      e.g.  seed_prompt.py C11 C11b
Writes /tmp/seed/<TAG>.full.txt (property text from properties.jsonl + one-line summaries of the changes other agents
already delivered for that property -- nothing about the verification machinery) and creates the worktree /tmp/seed/<TAG>
and the output directory /tmp/seed/<TAG>-out/{m1,m2}."""
import json
import pathlib
import subprocess
import sys

ROOT = pathlib.Path(__file__).resolve().parents[1]
TEMPLATE = pathlib.Path("/tmp/seed/C05b.full.txt")


def main():
    pid, tag = sys.argv[1], sys.argv[2]
    prop = next(json.loads(l) for l in (ROOT / "properties.jsonl").read_text().splitlines() if l.strip() and json.loads(l)["id"] == pid)
    tried = []
    for d in sorted((ROOT / "seeded").glob(f"{pid}-*")):
        m = json.loads((d / "meta.json").read_text())
        tried.append("- " + (m.get("summary") or m.get("agent_meta", {}).get("summary", "")).strip())
    W = f"/tmp/seed/{tag}"
    text = f"""You are testing how robust a Python library is against subtle regressions. The library is blackyblack/symplyphysics (a catalogue of physics laws as SymPy equations plus a small core for dimension checking, symbolic vectors and coordinate systems). You have your OWN scratch git worktree of it at {W} — work ONLY inside {W} and the output directory {W}-out; never touch /repo, never read or write anything under /verif, and do not use the network (offline sandbox). Python to use: /venv/bin/python (the package `symplyphysics` is installed editable from /repo, so to import YOUR modified copy always run with `cd {W} && PYTHONPATH={W} /venv/bin/python ...`; verify with `python -c "import symplyphysics; print(symplyphysics.__file__)"` that it points into {W}). The test suite: `cd {W} && PYTHONPATH={W} /venv/bin/python -m pytest -q -p no:cacheprovider -n 8` (about 1 minute, 2568 tests pass on the unmodified tree).

Here is a semantic property that the library is supposed to satisfy:

---
{prop['title']}

{prop['statement']}

Quantifier: {prop['quantifier']['text']}

Code anchors: {', '.join(prop['anchors']['files'])}
---

ALREADY TRIED by someone else (do NOT repeat these or close variants; pick different functions / mechanisms / clauses of the property):
{chr(10).join(tried) or '- (nothing yet)'}

Your task: produce TWO different realistic code changes (m1 and m2) to the library code in {W} (library code only: files under symplyphysics/, not the tests), each of which BREAKS the property above while the library still imports and the ENTIRE existing test suite still passes unedited. Each change should look like something a maintainer could plausibly commit (a refactor, an optimisation, a tidy-up, a 'fix' with a wrong assumption) — not sabotage — and should need something specific to manifest (a particular input shape, boundary value, ordering, or two cooperating sites that each look fine alone) — not something ordinary use or the existing tests would expose at once. Small diffs are best (1-15 lines). The two changes should hit different mechanisms/functions if possible.

For EACH change deliver, in {W}-out/m1 and {W}-out/m2:
 1. patch.diff — `git -C {W} diff` of exactly that change against the unmodified worktree (apply one change at a time: reset the worktree with `git -C {W} checkout -- .` between m1 and m2);
 2. demo.py — a small self-contained program (or pytest test) that exits non-zero / fails WITH the change applied and exits 0 / passes WITHOUT it, demonstrating the violation of the property on a concrete input; it must import the library from the current PYTHONPATH (do not hard-code {W} inside it);
 3. meta.json — {{"property": "{pid}", "summary": "...one sentence what was changed...", "needs_to_manifest": "...what specific input/sequence/shape triggers it...", "files_changed": [...], "ran": ["commands you ran and their outcome, incl. the full test-suite result with the change applied"]}}.
You MUST actually run: the full test suite with each change applied (it must still pass: report the counts), the demo with the change (fails) and without it (passes). If a candidate change makes some existing test fail, discard it and find another. Leave {W} clean (`git -C {W} checkout -- .`) when done. Final answer: a short description of m1 and m2 and the verification results.
"""
    pathlib.Path(f"{W}.full.txt").write_text(text)
    subprocess.run(["git", "-C", "/repo", "worktree", "add", "-f", "--detach", W, "HEAD"], check=True, capture_output=True)
    for m in ("m1", "m2"):
        pathlib.Path(f"{W}-out/{m}").mkdir(parents=True, exist_ok=True)
    print(f"{W}.full.txt", len(text), "chars;", len(tried), "earlier changes listed")


if __name__ == "__main__":
    main()
