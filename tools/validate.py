#!/usr/bin/env python3
"""Validate MANIFEST.json and every evidence file against the schemas; for proof-level evidence require discharged == obligations."""
import json, pathlib, sys
import jsonschema
V = pathlib.Path(__file__).resolve().parent.parent
man = json.loads((V / "MANIFEST.json").read_text())
jsonschema.validate(man, json.loads(pathlib.Path("/root/.vp/MANIFEST.schema.json").read_text()))
es = json.loads(pathlib.Path("/root/.vp/EVIDENCE.schema.json").read_text())
bad = 0
for c in man["checks"]:
    f = V / c["evidence_file"]
    if not f.exists():
        print("MISSING", f); bad += 1; continue
    ev = json.loads(f.read_text())
    try:
        jsonschema.validate(ev, es)
    except jsonschema.ValidationError as e:
        print("INVALID", f, e.message[:200]); bad += 1; continue
    cov = ev["coverage"]
    if ev["level"] != c["level_claimed"]["category"]:
        print("LEVEL MISMATCH", f, ev["level"], c["level_claimed"]["category"]); bad += 1
    if ev["level"] == "proof" and cov.get("discharged") != cov.get("obligations"):
        print("NOT ALL DISCHARGED", f, cov.get("discharged"), cov.get("obligations")); bad += 1
    if ev.get("violations"):
        print("VIOLATIONS RECORDED", f, ev["violations"]); bad += 1
    print(f"ok {c['property_id']}: level={ev['level']} tier={ev['tier']} obligations={cov.get('obligations')} discharged={cov.get('discharged')} programs={cov.get('programs')} wall={ev['wall_s']}")
props = [json.loads(l)["id"] for l in (V / "properties.jsonl").read_text().splitlines() if l.strip()]
claimed = {c["property_id"] for c in man["checks"]} | {n["property_id"] for n in man.get("not_applicable", [])}
if set(props) != claimed:
    print("UNACCOUNTED", sorted(set(props) - claimed)); bad += 1
sys.exit(1 if bad else 0)
