#!/usr/bin/env python3
"""Systematic mutation campaign over the functions under contract (DESIGN.md section 9 / 10.8).

For every function listed in evidence/<ID>.json -> coverage.functions_under_contract, first-order AST mutants are generated
(comparison / boolean / arithmetic operator swaps, constant flips, condition negation, statement deletion, call-argument swap,
continue<->break), each written to a scratch worktree (never /repo), and

  phase 1: the property's check runs with VERIF_REPO=<scratch>            -> exit 1 caught | 0 survived | 2/3 engine gave up
  phase 2 (only for mutants NOT caught): the unedited test suite runs     -> killed-by-tests | survives-tests

A mutant that survives the tests and is not caught is either equivalent (behaviour preserving) or a MISS of the check; those
are written to the report for manual triage.  Mutants killed by the test suite are not "realistic changes" in the sense of the
brief and are only counted.

usage: mutation_campaign.py <ID>[,<ID>...] [--max N] [--jobs J] [--out file.jsonl] [--no-tests] [--only-file substr]
"""
from __future__ import annotations

import argparse
import ast
import copy
import json
import os
import pathlib
import random
import shutil
import subprocess
import sys
import tempfile
import time
from concurrent.futures import ThreadPoolExecutor

V = pathlib.Path(__file__).resolve().parents[1]
REPO = pathlib.Path("/repo")

CMP = {ast.Eq: ast.NotEq, ast.NotEq: ast.Eq, ast.Lt: ast.LtE, ast.LtE: ast.Lt, ast.Gt: ast.GtE, ast.GtE: ast.Gt,
       ast.Is: ast.IsNot, ast.IsNot: ast.Is, ast.In: ast.NotIn, ast.NotIn: ast.In}
BIN = {ast.Add: ast.Sub, ast.Sub: ast.Add, ast.Mult: ast.Div, ast.Div: ast.Mult, ast.Pow: ast.Mult}


def find_function(tree, qual):
    node = tree
    for part in qual.split("."):
        found = None
        for n in ast.walk(node):
            if isinstance(n, (ast.FunctionDef, ast.ClassDef)) and n.name == part and n is not node:
                found = n
                break
        if found is None:
            return None
        node = found
    return node


def mutants_of(fn):
    """yield (description, mutate(copy_of_fn_root) ) as index-based edits: we enumerate candidate nodes by walk order"""
    nodes = list(ast.walk(fn))
    for i, n in enumerate(nodes):
        ln = getattr(n, "lineno", 0)
        if isinstance(n, ast.Compare) and len(n.ops) == 1 and type(n.ops[0]) in CMP:
            yield (i, f"L{ln}: {type(n.ops[0]).__name__} -> {CMP[type(n.ops[0])].__name__}", "cmp")
        if isinstance(n, ast.BoolOp):
            yield (i, f"L{ln}: {'and' if isinstance(n.op, ast.And) else 'or'} -> {'or' if isinstance(n.op, ast.And) else 'and'}", "bool")
        if isinstance(n, ast.BinOp) and type(n.op) in BIN:
            yield (i, f"L{ln}: {type(n.op).__name__} -> {BIN[type(n.op)].__name__}", "bin")
        if isinstance(n, ast.AugAssign) and type(n.op) in BIN:
            yield (i, f"L{ln}: aug {type(n.op).__name__} -> {BIN[type(n.op)].__name__}", "aug")
        if isinstance(n, ast.UnaryOp) and isinstance(n.op, ast.Not):
            yield (i, f"L{ln}: drop 'not'", "dropnot")
        if isinstance(n, (ast.If, ast.While, ast.IfExp)):
            yield (i, f"L{ln}: negate condition", "negcond")
        if isinstance(n, ast.Constant) and isinstance(n.value, bool):
            yield (i, f"L{ln}: {n.value} -> {not n.value}", "const")
        elif isinstance(n, ast.Constant) and isinstance(n.value, (int, float)) and not isinstance(n.value, bool):
            yield (i, f"L{ln}: {n.value} -> {n.value + 1}", "const")
        if isinstance(n, ast.Continue):
            yield (i, f"L{ln}: continue -> break", "cont")
        if isinstance(n, ast.Call) and len(n.args) == 2 and not n.keywords and not any(isinstance(a, ast.Starred) for a in n.args):
            yield (i, f"L{ln}: swap the two arguments of {ast.unparse(n.func)}", "swapargs")
        if isinstance(n, ast.Subscript) and isinstance(n.slice, ast.Constant) and isinstance(n.slice.value, int):
            yield (i, f"L{ln}: index {n.slice.value} -> {n.slice.value + 1}", "index")
    # statement deletion (body statements that are not defs / returns / docstrings / raise)
    k = 0
    for parent in nodes:
        for field in ("body", "orelse"):
            body = getattr(parent, field, None)
            if not isinstance(body, list) or len(body) < 2:
                continue
            for j, st in enumerate(body):
                if isinstance(st, (ast.FunctionDef, ast.ClassDef, ast.Return, ast.Raise, ast.Import, ast.ImportFrom)):
                    continue
                if isinstance(st, ast.Expr) and isinstance(st.value, ast.Constant) and isinstance(st.value.value, str):
                    continue
                yield ((nodes.index(parent), field, j), f"L{st.lineno}: delete statement `{ast.unparse(st)[:60]}`", "delstmt")
                k += 1


def apply(fn, key, kind):
    nodes = list(ast.walk(fn))
    if kind == "delstmt":
        pi, field, j = key
        getattr(nodes[pi], field).pop(j)
        return
    n = nodes[key]
    if kind == "cmp":
        n.ops = [CMP[type(n.ops[0])]()]
    elif kind == "bool":
        n.op = ast.Or() if isinstance(n.op, ast.And) else ast.And()
    elif kind in ("bin", "aug"):
        n.op = BIN[type(n.op)]()
    elif kind == "dropnot":
        n.op = ast.UAdd()  # replaced below
        n.__class__ = ast.Call
        n.func, n.args, n.keywords = ast.Name(id="bool", ctx=ast.Load()), [n.operand], []
    elif kind == "negcond":
        n.test = ast.UnaryOp(op=ast.Not(), operand=n.test)
    elif kind == "const":
        n.value = (not n.value) if isinstance(n.value, bool) else n.value + 1
    elif kind == "cont":
        n.__class__ = ast.Break
    elif kind == "swapargs":
        n.args = [n.args[1], n.args[0]]
    elif kind == "index":
        n.slice = ast.Constant(value=n.slice.value + 1)


def generate(pid, only_file=None):
    ev = json.loads((V / "evidence" / f"{pid}.json").read_text())
    out = []
    for qual, info in ev["coverage"].get("functions_under_contract", {}).items():
        rel = info["file"]
        if only_file and only_file not in rel:
            continue
        path = REPO / rel
        if not path.exists() or path.name == "__init__.py" and "laws" in rel:
            continue
        src = path.read_text()
        tree = ast.parse(src)
        modq = rel[:-3].replace("/", ".")
        if modq.endswith(".__init__"):
            modq = modq[:-9]
        fq = qual[len(modq) + 1:] if qual.startswith(modq + ".") else qual.split(".")[-1]
        fn = find_function(tree, fq)
        if fn is None:
            continue
        for key, desc, kind in mutants_of(fn):
            t2 = copy.deepcopy(tree)
            f2 = find_function(t2, fq)
            try:
                apply(f2, key, kind)
                ast.fix_missing_locations(t2)
                new_src = ast.unparse(t2)
                compile(new_src, rel, "exec")
            except Exception:
                continue
            out.append({"pid": pid, "file": rel, "function": fq, "desc": desc, "kind": kind, "src": new_src})
    # the same function may be listed by several qualified names; dedupe on (file, src)
    seen, uniq = set(), []
    for m in out:
        k = (m["file"], m["src"])
        if k not in seen:
            seen.add(k)
            uniq.append(m)
    return uniq


class Worker:
    def __init__(self):
        os.makedirs("/tmp/vfm", exist_ok=True)
        self.dir = tempfile.mkdtemp(prefix="mc", dir="/tmp/vfm")
        os.rmdir(self.dir)
        subprocess.check_call(["git", "-C", str(REPO), "worktree", "add", "-q", "--detach", self.dir])

    def close(self):
        subprocess.call(["git", "-C", str(REPO), "worktree", "remove", "--force", self.dir])
        shutil.rmtree(self.dir, ignore_errors=True)

    def run(self, m, with_tests):
        p = pathlib.Path(self.dir) / m["file"]
        orig = p.read_text()
        res = {k: m[k] for k in ("pid", "file", "function", "desc", "kind")}
        try:
            # baseline formatting: compare against the unparsed ORIGINAL so that only the mutation differs
            p.write_text(m["src"])
            t0 = time.time()
            env = dict(os.environ, VERIF_REPO=self.dir)
            r = subprocess.run([str(V / "check"), m["pid"]], env=env, capture_output=True, text=True, timeout=1800)
            res["check_exit"] = r.returncode
            res["violations"] = sum(1 for l in r.stdout.splitlines() if l.startswith("VIOLATION"))
            res["reproduced"] = sum(1 for l in r.stdout.splitlines() if l.startswith("VIOLATION") and not l.rstrip().endswith("no-failing-input-found"))
            res["first"] = next((l.strip()[:300] for l in r.stdout.splitlines() if "refuted obligation" in l or l.startswith("FAULT") or l.startswith("UNDECIDED")), "")
            res["check_s"] = round(time.time() - t0, 1)
            if with_tests and r.returncode != 1:
                t0 = time.time()
                rt = subprocess.run(["/venv/bin/python", "-m", "pytest", "-q", "-x", "-p", "no:cacheprovider", "-n", "4", "--timeout=900"],
                                    cwd=self.dir, env=dict(os.environ, PYTHONPATH=self.dir), capture_output=True, text=True, timeout=3600)
                last = rt.stdout.strip().splitlines()[-1] if rt.stdout.strip() else rt.stderr[-200:]
                res["tests"] = "pass" if rt.returncode == 0 else "fail"
                res["tests_line"] = last[:200]
                res["tests_s"] = round(time.time() - t0, 1)
        except subprocess.TimeoutExpired:
            res["check_exit"] = res.get("check_exit", "timeout")
        finally:
            p.write_text(orig)
        return res


def main():
    ap = argparse.ArgumentParser()
    ap.add_argument("pids")
    ap.add_argument("--max", type=int, default=0)
    ap.add_argument("--jobs", type=int, default=4)
    ap.add_argument("--out", default="")
    ap.add_argument("--no-tests", action="store_true")
    ap.add_argument("--only-file", default=None)
    ap.add_argument("--seed", type=int, default=0)
    ap.add_argument("--rerun-noncaught", default="", help="jsonl of an earlier run: redo (with the test suite) only the mutants that were not caught there")
    a = ap.parse_args()
    muts = []
    for pid in a.pids.split(","):
        muts += generate(pid, a.only_file)
    if a.rerun_noncaught:
        keep = {(r["pid"], r["file"], r["function"], r["desc"]) for r in map(json.loads, open(a.rerun_noncaught)) if r.get("check_exit") != 1}
        muts = [m for m in muts if (m["pid"], m["file"], m["function"], m["desc"]) in keep]
    rng = random.Random(a.seed)
    rng.shuffle(muts)
    if a.max:
        muts = muts[:a.max]
    out = pathlib.Path(a.out or f"/tmp/vfm/campaign-{a.pids.replace(',', '_')}.jsonl")
    out.parent.mkdir(parents=True, exist_ok=True)
    print(f"{len(muts)} mutants -> {out}", flush=True)
    workers = [Worker() for _ in range(a.jobs)]
    free = list(workers)
    import threading
    lock = threading.Lock()

    def job(m):
        with lock:
            w = free.pop()
        try:
            return w.run(m, not a.no_tests)
        finally:
            with lock:
                free.append(w)
    try:
        with ThreadPoolExecutor(max_workers=a.jobs) as ex, out.open("w") as fh:
            for i, r in enumerate(ex.map(job, muts), 1):
                fh.write(json.dumps(r) + "\n")
                fh.flush()
                tag = {1: "caught", 0: "SURVIVED", 2: "undecided", 3: "fault"}.get(r.get("check_exit"), str(r.get("check_exit")))
                print(f"[{i}/{len(muts)}] {tag:9s} tests={r.get('tests', '-'):4s} {r['file'].split('/')[-1]}:{r['function']} {r['desc']}", flush=True)
    finally:
        for w in workers:
            w.close()


if __name__ == "__main__":
    main()
