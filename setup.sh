#!/bin/sh
# Build the overlay venv (offline): z3-solver, cvc5, jsonschema from the wheelhouse + .pth to /venv site-packages.
set -e
cd "$(dirname "$0")"
if [ -x .venv/bin/python ] && .venv/bin/python -c "import z3, cvc5, jsonschema, sympy, symplyphysics" 2>/dev/null; then
  echo "setup: .venv ok"; exit 0
fi
rm -rf .venv
/venv/bin/python -m venv .venv
PIP_NO_INDEX=1 .venv/bin/python -m pip install -q --no-index --find-links /opt/veriftools/wheels z3-solver cvc5 jsonschema scipy
SP=$(.venv/bin/python -c "import sysconfig; print(sysconfig.get_paths()['purelib'])")
echo "import site; site.addsitedir('/venv/lib/python3.12/site-packages')" > "$SP/zz_repo_overlay.pth"
.venv/bin/python -c "import z3, cvc5, jsonschema, sympy, symplyphysics; print('setup: built', z3.get_version_string(), sympy.__version__, symplyphysics.__file__)"
